//! C40 translator item `ldap-gateway-tables`: the dispatch and bind tables of the LDAP gateway,
//! re-read from the source on every run and written to `Generated/LdapGatewayOps.lean`:
//!
//!  * `ldap3_proto` (the version /repo's Cargo.lock pins, read from the cargo registry):
//!    `enum LdapOp` (every variant must be known) and `ServerOps::try_from(LdapMsg)`
//!    (wire operation ↦ server operation, everything else refused);
//!  * server/core/src/actors/v1_read.rs `handle_ldaprequest` (refusal = `Disconnect`/`ProtocolError`);
//!  * server/core/src/ldaps.rs `client_process` (which response states set the connection's
//!    session / close the connection);
//!  * server/lib/src/idm/ldap.rs `do_op` (handlers called per operation, bound / unbound, the
//!    arguments of the implicit bind, which token a handler is given), `do_bind` (target ↦
//!    authentication function), the transaction constructor(s) each handler calls on `idms`;
//!  * server/lib/src/idm/server.rs `IdmServer::{auth, proxy_read, proxy_write}` (which QueryServer
//!    transaction each opens), `IdmServerAuthTransaction::commit` (a no-op), `auth_ldap` (anonymous
//!    test, unix-bind flag guard and its position, sessions built), `token_auth_ldap`,
//!    `validate_ldap_session` (session kind ↦ identity builder), `process_ldap_uuid_to_identity`
//!    (identity entry = anonymous entry, scope constant, validity check), `process_apit_to_identity`
//!    (scope = purpose.into(), entry = the token account's);
//!  * server/lib/src/server/identity.rs `From<&ApiTokenPurpose> for AccessScope`;
//!  * server/lib/src/idm/application.rs `application_auth_ldap` (order of checks, linked-group test);
//!  * a scan of every function reachable from `do_op` for write-API calls and `DelayedAction`s.
//! Anything not of the recognised shape is an `Err` (never a guess).
use crate::util::*;
use quote::ToTokens;
use syn::visit::Visit;

pub fn run(item: &str, repo: &str, out: &str) -> Option<Result<String, String>> {
    match item {
        "ldap-gateway-tables" => Some(tables(repo, out)),
        _ => None,
    }
}

fn toks<T: ToTokens>(t: &T) -> String {
    t.to_token_stream().to_string()
}

fn lc(v: &str) -> String {
    let mut c = v.chars();
    match c.next() {
        Some(f) => format!(".{}{}", f.to_lowercase(), c.as_str()),
        None => String::new(),
    }
}

// ---------------------------------------------------------------------------------------------
// ldap3_proto
// ---------------------------------------------------------------------------------------------

fn ldap3_proto_dir(repo: &str) -> Result<(String, String), String> {
    if let Ok(p) = std::env::var("VERIF_LDAP3_PROTO_SRC") {
        return Ok((p, "env".into()));
    }
    let lock = std::fs::read_to_string(format!("{repo}/Cargo.lock")).map_err(|e| format!("{repo}/Cargo.lock: {e}"))?;
    let mut version = None;
    let mut lines = lock.lines();
    while let Some(l) = lines.next() {
        if l.trim() == "name = \"ldap3_proto\"" {
            if let Some(v) = lines.next() {
                version = v.trim().strip_prefix("version = \"").and_then(|s| s.strip_suffix('"')).map(|s| s.to_string());
            }
            break;
        }
    }
    let version = version.ok_or("ldap3_proto not found in Cargo.lock")?;
    let home = std::env::var("CARGO_HOME").unwrap_or_else(|_| format!("{}/.cargo", std::env::var("HOME").unwrap_or_else(|_| "/root".into())));
    let reg = format!("{home}/registry/src");
    let rd = std::fs::read_dir(&reg).map_err(|e| format!("{reg}: {e}"))?;
    for d in rd.flatten() {
        let p = format!("{}/ldap3_proto-{version}/src", d.path().display());
        if std::path::Path::new(&p).is_dir() {
            return Ok((p, version));
        }
    }
    Err(format!("ldap3_proto-{version} sources not found under {reg}"))
}

const WIRE_PLAIN: [&str; 21] = [
    "BindResponse", "UnbindRequest", "SearchRequest", "SearchResultEntry", "SearchResultDone",
    "SearchResultReference", "ModifyRequest", "ModifyResponse", "AddRequest", "AddResponse", "DelRequest",
    "DelResponse", "ModifyDNRequest", "ModifyDNResponse", "CompareRequest", "CompareResult", "AbandonRequest",
    "ExtendedResponse", "IntermediateResponse", "BindRequest", "ExtendedRequest",
];
const WIRE_ALL: [&str; 23] = [
    "bindSimple", "bindSasl", "bindResponse", "unbindRequest", "searchRequest", "searchResultEntry",
    "searchResultDone", "searchResultReference", "modifyRequest", "modifyResponse", "addRequest", "addResponse",
    "delRequest", "delResponse", "modifyDNRequest", "modifyDNResponse", "compareRequest", "compareResult",
    "abandonRequest", "extendedWhoami", "extendedOther", "extendedResponse", "intermediateResponse",
];
const SERVER_OPS: [&str; 5] = ["SimpleBind", "Search", "Unbind", "Compare", "Whoami"];
const WHOAMI_OID: &str = "1.3.6.1.4.1.4203.1.11.3";

fn lower_first(v: &str) -> String {
    let mut c = v.chars();
    match c.next() {
        Some(f) => format!("{}{}", f.to_lowercase(), c.as_str()),
        None => String::new(),
    }
}

/// `Ok(ServerOps::X(..))` ↦ X ; `Err(())` ↦ None.
fn server_op_of(e: &syn::Expr) -> Result<Option<String>, String> {
    let s = toks(e);
    if s == "Err (())" {
        return Ok(None);
    }
    for op in SERVER_OPS {
        if s.starts_with(&format!("Ok (ServerOps :: {op} (")) {
            return Ok(Some(op.to_string()));
        }
    }
    // a block `{ let .. = lsr; Ok(ServerOps::X(..)) }`
    if let syn::Expr::Block(b) = e {
        if let Some(syn::Stmt::Expr(last, None)) = b.block.stmts.last() {
            return server_op_of(last);
        }
    }
    Err(format!("ServerOps::try_from: unrecognised arm body `{s}`"))
}

fn wire_dispatch(dir: &str) -> Result<Vec<(String, Option<String>)>, String> {
    let parse = |f: &str| -> Result<syn::File, String> {
        let p = format!("{dir}/{f}");
        let src = std::fs::read_to_string(&p).map_err(|e| format!("{p}: {e}"))?;
        syn::parse_file(&src).map_err(|e| format!("{p}: {e}"))
    };
    let proto = parse("proto.rs")?;
    let mut variants = vec![];
    for it in &proto.items {
        if let syn::Item::Enum(e) = it {
            if e.ident == "LdapOp" {
                variants = e.variants.iter().map(|v| v.ident.to_string()).collect();
            }
        }
    }
    if variants.is_empty() {
        return Err("enum LdapOp not found in ldap3_proto proto.rs".into());
    }
    for v in &variants {
        if !WIRE_PLAIN.contains(&v.as_str()) {
            return Err(format!("LdapOp::{v} is not known to the Lean enumeration WireOp (extend it)"));
        }
    }
    for v in WIRE_PLAIN {
        if !variants.iter().any(|x| x == v) {
            return Err(format!("LdapOp::{v} no longer exists"));
        }
    }
    let simple = parse("simple.rs")?;
    let f = find_fn(&simple, "TryFrom@ServerOps::try_from")?;
    let m = f
        .block
        .stmts
        .iter()
        .rev()
        .find_map(|s| if let syn::Stmt::Expr(syn::Expr::Match(m), _) = s { Some(m.clone()) } else { None })
        .ok_or("ServerOps::try_from: no match")?;
    if toks(&m.expr) != "op" {
        return Err(format!("ServerOps::try_from: match scrutinee is `{}`", toks(&m.expr)));
    }
    let mut table: std::collections::BTreeMap<String, Option<String>> = Default::default();
    let mut wildcard = false;
    for arm in &m.arms {
        if arm.guard.is_some() {
            return Err("ServerOps::try_from: guarded arm".into());
        }
        if wildcard {
            return Err("ServerOps::try_from: arm after the wildcard".into());
        }
        let pat = toks(&arm.pat);
        if pat == "_" {
            if server_op_of(&arm.body)?.is_some() {
                return Err("ServerOps::try_from: wildcard arm accepts".into());
            }
            wildcard = true;
            continue;
        }
        let var = pat
            .strip_prefix("LdapOp :: ")
            .map(|r| r.split(|c: char| !(c.is_alphanumeric() || c == '_')).next().unwrap_or("").to_string())
            .ok_or_else(|| format!("ServerOps::try_from: unexpected pattern `{pat}`"))?;
        match var.as_str() {
            "BindRequest" => {
                // only the simple credential kind is accepted; everything else falls through
                if !pat.contains("cred : LdapBindCred :: Simple (") {
                    return Err(format!("ServerOps::try_from: BindRequest pattern `{pat}` does not select LdapBindCred::Simple"));
                }
                let op = server_op_of(&arm.body)?;
                table.insert("bindSimple".into(), op);
            }
            "ExtendedRequest" => {
                let syn::Expr::Match(inner) = &*arm.body else {
                    return Err("ServerOps::try_from: ExtendedRequest arm is not a match on the OID".into());
                };
                if !toks(&inner.expr).ends_with(". name . as_str ()") {
                    return Err(format!("ServerOps::try_from: ExtendedRequest matches on `{}`", toks(&inner.expr)));
                }
                let mut other = None;
                for ia in &inner.arms {
                    let ip = toks(&ia.pat);
                    if ip == "_" {
                        other = Some(server_op_of(&ia.body)?);
                    } else if ip == format!("\"{WHOAMI_OID}\"") {
                        table.insert("extendedWhoami".into(), server_op_of(&ia.body)?);
                    } else {
                        return Err(format!("ServerOps::try_from: extended operation {ip} is accepted but unknown to the model"));
                    }
                }
                let other = other.ok_or("ServerOps::try_from: ExtendedRequest has no wildcard")?;
                table.insert("extendedOther".into(), other);
                table.entry("extendedWhoami".into()).or_insert(None);
            }
            v if WIRE_PLAIN.contains(&v) => {
                table.insert(lower_first(v), server_op_of(&arm.body)?);
            }
            v => return Err(format!("ServerOps::try_from: unknown LdapOp::{v}")),
        }
    }
    if !wildcard {
        return Err("ServerOps::try_from: no wildcard arm (exhaustive match: re-check the model)".into());
    }
    Ok(WIRE_ALL.iter().map(|w| (w.to_string(), table.get(*w).cloned().flatten())).collect())
}

// ---------------------------------------------------------------------------------------------
// helpers over function bodies
// ---------------------------------------------------------------------------------------------

/// Method calls `recv.m(args)` in source order: (receiver tokens, method, args tokens).
struct MC(Vec<(String, String, Vec<String>)>);
impl<'ast> Visit<'ast> for MC {
    fn visit_expr_method_call(&mut self, m: &'ast syn::ExprMethodCall) {
        // receiver first: source order of evaluation
        syn::visit::visit_expr(self, &m.receiver);
        self.0.push((toks(&m.receiver), m.method.to_string(), m.args.iter().map(toks).collect()));
        for a in &m.args {
            syn::visit::visit_expr(self, a);
        }
    }
    fn visit_macro(&mut self, _m: &'ast syn::Macro) {}
}
fn calls_in_expr(e: &syn::Expr) -> Vec<(String, String, Vec<String>)> {
    let mut v = MC(vec![]);
    v.visit_expr(e);
    v.0
}
fn calls_in_block(b: &syn::Block) -> Vec<(String, String, Vec<String>)> {
    let mut v = MC(vec![]);
    v.visit_block(b);
    v.0
}

/// All paths (`A::B::C`) used as expressions or patterns in a block, as token strings.
fn paths_in_block(b: &syn::Block) -> Vec<String> {
    struct P(Vec<String>);
    impl<'ast> Visit<'ast> for P {
        fn visit_path(&mut self, p: &'ast syn::Path) {
            self.0.push(p.segments.iter().map(|s| s.ident.to_string()).collect::<Vec<_>>().join("::"));
            syn::visit::visit_path(self, p);
        }
    }
    let mut p = P(vec![]);
    p.visit_block(b);
    p.0
}

fn fields_in_block(b: &syn::Block) -> Vec<String> {
    struct F(Vec<String>);
    impl<'ast> Visit<'ast> for F {
        fn visit_expr_field(&mut self, f: &'ast syn::ExprField) {
            if let syn::Member::Named(i) = &f.member {
                self.0.push(i.to_string());
            }
            syn::visit::visit_expr_field(self, f);
        }
    }
    let mut f = F(vec![]);
    f.visit_block(b);
    f.0
}

fn find_match_on(b: &syn::Block, scrutinee: &str) -> Option<syn::ExprMatch> {
    struct M<'a>(&'a str, Option<syn::ExprMatch>);
    impl<'a, 'ast> Visit<'ast> for M<'a> {
        fn visit_expr_match(&mut self, m: &'ast syn::ExprMatch) {
            if self.1.is_none() && toks(&m.expr) == self.0 {
                self.1 = Some(m.clone());
                return;
            }
            syn::visit::visit_expr_match(self, m);
        }
    }
    let mut m = M(scrutinee, None);
    m.visit_block(b);
    m.1
}

fn handler_name(m: &str) -> Option<&'static str> {
    match m {
        "do_bind" => Some(".doBind"),
        "do_search" => Some(".doSearch"),
        "do_compare" => Some(".doCompare"),
        _ => None,
    }
}

// ---------------------------------------------------------------------------------------------
// do_op
// ---------------------------------------------------------------------------------------------

struct DoOp {
    /// (server op, bound?, handlers)
    calls: Vec<(String, bool, Vec<String>)>,
    implicit_anonymous: bool,
    bound_uses_session_token: bool,
    unbound_uses_implicit_token: bool,
    /// response state constructors per (op, bound?) in source order
    states: Vec<(String, bool, Vec<String>)>,
}

fn do_op(ldap: &syn::File) -> Result<DoOp, String> {
    let f = find_fn(ldap, "LdapServer::do_op")?;
    let m = find_match_on(&f.block, "server_op").ok_or("do_op: no `match server_op`")?;
    let mut calls = vec![];
    let mut states = vec![];
    let mut implicit_anonymous = true;
    let mut saw_implicit = false;
    let mut bound_tok = true;
    let mut unbound_tok = true;
    let mut seen = vec![];
    let resp_states = |e: &syn::Expr| -> Vec<String> {
        let s = toks(e);
        let mut found: Vec<(usize, String)> = vec![];
        for k in ["Unbind", "Disconnect", "BindMultiPartResponse", "MultiPartResponse", "Bind", "Respond"] {
            let needle = format!("LdapResponseState :: {k}");
            let mut from = 0;
            while let Some(i) = s[from..].find(&needle) {
                let at = from + i;
                let after = s[at + needle.len()..].chars().next();
                // whole identifier only (Bind vs BindMultiPartResponse)
                if !after.map(|c| c.is_alphanumeric() || c == '_').unwrap_or(false) {
                    found.push((at, k.to_string()));
                }
                from = at + needle.len();
            }
        }
        found.sort();
        found.into_iter().map(|(_, k)| k).collect()
    };
    for arm in &m.arms {
        if arm.guard.is_some() {
            return Err("do_op: guarded arm".into());
        }
        let pat = toks(&arm.pat);
        let op = SERVER_OPS
            .iter()
            .find(|o| pat.starts_with(&format!("ServerOps :: {o} (")))
            .ok_or_else(|| format!("do_op: unexpected arm `{pat}`"))?
            .to_string();
        seen.push(op.clone());
        // split on `match uat`
        let inner = if let syn::Expr::Match(im) = &*arm.body { if toks(&im.expr) == "uat" { Some(im.clone()) } else { None } } else { None };
        let mut per: Vec<(bool, syn::Expr)> = vec![];
        match inner {
            Some(im) => {
                if im.arms.len() != 2 {
                    return Err(format!("do_op: `match uat` of {op} has {} arms", im.arms.len()));
                }
                for ia in &im.arms {
                    let ip = toks(&ia.pat);
                    let bound = match ip.as_str() {
                        "Some (u)" => true,
                        "None" => false,
                        _ => return Err(format!("do_op: `match uat` arm `{ip}`")),
                    };
                    per.push((bound, (*ia.body).clone()));
                }
            }
            None => {
                if toks(&arm.body).contains("uat") {
                    return Err(format!("do_op: arm {op} reads `uat` outside a `match uat`"));
                }
                per.push((true, (*arm.body).clone()));
                per.push((false, (*arm.body).clone()));
            }
        }
        for (bound, body) in per {
            let mut hs = vec![];
            for (recv, meth, args) in calls_in_expr(&body) {
                if let Some(h) = handler_name(&meth) {
                    if recv != "self" {
                        return Err(format!("do_op: handler {meth} called on `{recv}`"));
                    }
                    hs.push(h.to_string());
                    if meth == "do_bind" && op != "SimpleBind" {
                        saw_implicit = true;
                        if args != ["idms", "\"\"", "\"\""] {
                            implicit_anonymous = false;
                        }
                        if bound {
                            return Err(format!("do_op: implicit bind on a bound connection ({op})"));
                        }
                    }
                    if meth == "do_bind" && op == "SimpleBind" && args != ["idms", "sbr . dn . as_str ()", "sbr . pw . as_str ()"] {
                        return Err(format!("do_op: SimpleBind passes {args:?} to do_bind"));
                    }
                    if meth == "do_search" || meth == "do_compare" {
                        let tok = args.get(2).cloned().unwrap_or_default();
                        if bound && tok != "& u" {
                            bound_tok = false;
                        }
                        if !bound && tok != "& lbt" {
                            unbound_tok = false;
                        }
                    }
                }
            }
            states.push((op.clone(), bound, resp_states(&body)));
            calls.push((op.clone(), bound, hs));
        }
    }
    for o in SERVER_OPS {
        if seen.iter().filter(|s| s.as_str() == o).count() != 1 {
            return Err(format!("do_op: ServerOps::{o} does not have exactly one arm"));
        }
    }
    if !saw_implicit {
        implicit_anonymous = false;
    }
    // the implicit token: `let lbt = match self.do_bind(idms, "", "").await { Ok(Some(lbt)) => lbt, .. }`
    Ok(DoOp { calls, implicit_anonymous, bound_uses_session_token: bound_tok, unbound_uses_implicit_token: unbound_tok, states })
}

fn handler_txns(ldap: &syn::File) -> Result<Vec<(String, Vec<String>)>, String> {
    let mut out = vec![];
    for (h, name) in [(".doBind", "do_bind"), (".doSearch", "do_search"), (".doCompare", "do_compare")] {
        let f = find_fn(ldap, &format!("LdapServer::{name}"))?;
        let mut txns = vec![];
        for (recv, meth, _) in calls_in_block(&f.block) {
            if recv == "idms" {
                let t = match meth.as_str() {
                    "auth" => ".auth",
                    "proxy_read" => ".proxyRead",
                    "proxy_write" => ".proxyWrite",
                    other => return Err(format!("{name}: unknown IdmServer method `{other}` (transaction constructor?)")),
                };
                txns.push(t.to_string());
            }
        }
        // `idms` must not reach anything the scan does not follow: every use is such a call
        let uses = path_uses(&f.block, "idms");
        if uses != txns.len() {
            return Err(format!("{name}: `idms` is used {uses} times but only {} times as the receiver of a transaction constructor", txns.len()));
        }
        out.push((h.to_string(), txns));
    }
    // do_op hands `idms` to the three handlers only
    let f = find_fn(ldap, "LdapServer::do_op")?;
    let handed = calls_in_block(&f.block).into_iter().filter(|(r, m, a)| r == "self" && handler_name(m).is_some() && a.first().map(|x| x == "idms").unwrap_or(false)).count();
    let uses = path_uses(&f.block, "idms");
    if uses != handed {
        return Err(format!("do_op: `idms` is used {uses} times but handed to a handler {handed} times"));
    }
    Ok(out)
}

/// Number of times the plain identifier `name` is used as an expression in a block.
fn path_uses(b: &syn::Block, name: &str) -> usize {
    struct U<'a>(&'a str, usize);
    impl<'a, 'ast> Visit<'ast> for U<'a> {
        fn visit_expr_path(&mut self, p: &'ast syn::ExprPath) {
            if p.path.is_ident(self.0) {
                self.1 += 1;
            }
        }
    }
    let mut u = U(name, 0);
    u.visit_block(b);
    u.1
}

fn txn_qs(server: &syn::File) -> Result<Vec<(String, String)>, String> {
    let mut out = vec![];
    for (t, name) in [(".auth", "auth"), (".proxyRead", "proxy_read"), (".proxyWrite", "proxy_write")] {
        let f = find_fn(server, &format!("IdmServer::{name}"))?;
        let qs: Vec<String> = calls_in_block(&f.block)
            .into_iter()
            .filter(|(recv, _, _)| recv == "self . qs")
            .map(|(_, m, _)| m)
            .collect();
        let k = match qs.as_slice() {
            [m] if m == "read" => ".read",
            [m] if m == "write" => ".write",
            other => return Err(format!("IdmServer::{name}: query server calls {other:?}")),
        };
        out.push((t.to_string(), k.to_string()));
    }
    Ok(out)
}

// ---------------------------------------------------------------------------------------------
// reachable functions: write-API and delayed-action scan
// ---------------------------------------------------------------------------------------------

const WRITE_METHODS: [&str; 22] = [
    "proxy_write", "internal_create", "internal_modify", "internal_modify_uuid", "internal_delete",
    "internal_delete_uuid", "internal_batch_modify", "internal_apply_writable", "impersonate_modify",
    "impersonate_modify_valid", "impersonate_modify_gen_event", "impersonate_batch_modify", "create", "modify",
    "delete", "batch_modify", "purge_tombstones", "purge_recycled", "revive_recycled", "scim_create", "scim_update",
    "scim_delete",
];

fn reachable(repo: &str) -> Result<Vec<(String, FoundFn)>, String> {
    let ldap = parse_file(repo, "server/lib/src/idm/ldap.rs")?;
    let server = parse_file(repo, "server/lib/src/idm/server.rs")?;
    let app = parse_file(repo, "server/lib/src/idm/application.rs")?;
    let mut v = vec![];
    for n in ["do_op", "do_bind", "do_search", "do_compare", "bind_target_from_bind_dn"] {
        v.push((n.to_string(), find_fn(&ldap, &format!("LdapServer::{n}"))?));
    }
    for n in ["auth_ldap", "auth_with_unix_pass", "token_auth_ldap"] {
        v.push((n.to_string(), find_fn(&server, &format!("IdmServerAuthTransaction::{n}"))?));
    }
    for n in [
        "validate_ldap_session", "process_ldap_uuid_to_identity", "process_uat_to_identity", "process_apit_to_identity",
        "validate_and_parse_token_to_identity_token",
    ] {
        v.push((n.to_string(), find_fn(&server, &format!("IdmServerTransaction::{n}"))?));
    }
    v.push(("application_auth_ldap".into(), find_fn(&app, "IdmServerAuthTransaction::application_auth_ldap")?));
    Ok(v)
}

fn scan(fns: &[(String, FoundFn)]) -> (Vec<(String, String)>, Vec<(String, String)>) {
    let mut writes = vec![];
    let mut delayed = vec![];
    for (name, f) in fns {
        for (recv, meth, _) in calls_in_block(&f.block) {
            if WRITE_METHODS.contains(&meth.as_str()) || (meth == "write" && recv.ends_with(". qs")) {
                writes.push((name.clone(), format!("{recv}.{meth}")));
            }
        }
        for fld in fields_in_block(&f.block) {
            if fld == "qs_write" {
                writes.push((name.clone(), "qs_write".into()));
            }
        }
        for p in paths_in_block(&f.block) {
            if let Some(rest) = p.strip_prefix("DelayedAction::") {
                delayed.push((name.clone(), rest.to_string()));
            }
        }
    }
    (writes, delayed)
}

// ---------------------------------------------------------------------------------------------
// bind and identity shapes
// ---------------------------------------------------------------------------------------------

/// Position of `needle` in the body's token string, or an error naming `what`.
fn pos(body: &str, needle: &str, what: &str, f: &str) -> Result<usize, String> {
    body.find(needle).ok_or_else(|| format!("{f}: {what} (`{needle}`) not found"))
}

fn session_ctors(s: &str) -> Vec<(usize, String, String)> {
    let mut out = vec![];
    for k in ["UnixBind", "UserAuthToken", "ApiToken", "ApplicationPasswordBind"] {
        let needle = format!("LdapSession :: {k} (");
        let mut from = 0;
        while let Some(i) = s[from..].find(&needle) {
            let at = from + i;
            let rest = &s[at + needle.len()..];
            let arg = rest.split(')').next().unwrap_or("").trim().to_string();
            out.push((at, k.to_string(), arg));
            from = at + needle.len();
        }
    }
    out.sort();
    out
}

struct Binds {
    unix_flag_guard: bool,
    anon_test: bool,
    /// (path, session kind, owner is the anonymous constant)
    sessions: Vec<(String, String, bool)>,
    app_checks: Vec<String>,
    app_memberof_linked_group: bool,
    bind_target_auth_ok: bool,
    auth_commit_noop: bool,
    token_bind_validates_uat: bool,
    token_bind_validates_apit: bool,
}

fn binds(repo: &str) -> Result<Binds, String> {
    let server = parse_file(repo, "server/lib/src/idm/server.rs")?;
    let ldap = parse_file(repo, "server/lib/src/idm/ldap.rs")?;
    let app = parse_file(repo, "server/lib/src/idm/application.rs")?;
    // --- auth_ldap
    let f = find_fn(&server, "IdmServerAuthTransaction::auth_ldap")?;
    let top = match f.block.stmts.as_slice() {
        [syn::Stmt::Expr(syn::Expr::If(i), None)] => i.clone(),
        _ => return Err("auth_ldap: body is not a single if/else".into()),
    };
    let anon_test = toks(&top.cond) == "lae . target == UUID_ANONYMOUS";
    let then_s = toks(&top.then_branch);
    let else_e = top.else_branch.as_ref().map(|(_, e)| (**e).clone()).ok_or("auth_ldap: no else branch")?;
    let else_s = toks(&else_e);
    let guard = "if ! self . qs_read . d_info . d_ldap_allow_unix_pw_bind {";
    let unix_flag_guard = match (else_s.find(guard), else_s.find("auth_with_unix_pass")) {
        (Some(g), Some(a)) if g < a => {
            // the guarded block must refuse: `return Ok (None) ;` before its closing brace
            let blk = &else_s[g + guard.len()..a];
            blk.contains("return Ok (None) ;")
        }
        (_, None) => return Err("auth_ldap: no call of auth_with_unix_pass in the non-anonymous branch".into()),
        _ => false,
    };
    if then_s.contains("auth_with_unix_pass") {
        return Err("auth_ldap: the anonymous branch verifies a password".into());
    }
    let mut sessions = vec![];
    let one = |s: &str, path: &str, f: &str| -> Result<(String, String, bool), String> {
        let c = session_ctors(s);
        match c.as_slice() {
            [(_, k, arg)] => Ok((path.to_string(), k.clone(), arg == "UUID_ANONYMOUS")),
            _ => Err(format!("{f}: {} LdapSession constructors on the {path} path", c.len())),
        }
    };
    sessions.push(one(&then_s, "anonymous", "auth_ldap")?);
    let (p, k, anon) = one(&else_s, "unix", "auth_ldap")?;
    if !else_s.contains("LdapSession :: UnixBind (account . uuid)") && k == "UnixBind" {
        return Err("auth_ldap: unix session is not bound to account.uuid".into());
    }
    sessions.push((p, k, anon));
    // --- token_auth_ldap
    let f = find_fn(&server, "IdmServerAuthTransaction::token_auth_ldap")?;
    let m = match f.block.stmts.as_slice() {
        [syn::Stmt::Expr(syn::Expr::Match(m), None)] => m.clone(),
        _ => return Err("token_auth_ldap: body is not a single match".into()),
    };
    if toks(&m.expr) != "self . validate_and_parse_token_to_identity_token (& lae . token , ct) ?" {
        return Err(format!("token_auth_ldap: matches on `{}`", toks(&m.expr)));
    }
    let mut token_bind_validates_uat = false;
    let mut token_bind_validates_apit = false;
    for arm in &m.arms {
        let pat = toks(&arm.pat);
        {
            // does the bind run the identity builder (account window, stored session) before it
            // hands out the token?  `self.process_*_to_identity(..)?;` ahead of `LdapBoundToken {`
            let b = toks(&arm.body);
            let before = |call: &str| match (b.find(call), b.find("LdapBoundToken {")) {
                (Some(c), Some(t)) => c < t,
                _ => false,
            };
            if pat.starts_with("Token :: UserAuthToken (") {
                token_bind_validates_uat = before("self . process_uat_to_identity (& uat , ct , Source :: Internal) ? ;");
                if b.contains("process_uat_to_identity") && !token_bind_validates_uat {
                    return Err("token_auth_ldap: UAT arm calls process_uat_to_identity in an unrecognised way".into());
                }
            } else if pat.starts_with("Token :: ApiToken (") {
                token_bind_validates_apit = before("self . process_apit_to_identity (& apit , Source :: Internal , entry . clone () , ct) ? ;");
                if b.contains("process_apit_to_identity") && !token_bind_validates_apit {
                    return Err("token_auth_ldap: api token arm calls process_apit_to_identity in an unrecognised way".into());
                }
            }
        }
        let path = if pat.starts_with("Token :: UserAuthToken (") {
            "tokenUat"
        } else if pat.starts_with("Token :: ApiToken (") {
            "tokenApi"
        } else {
            return Err(format!("token_auth_ldap: unexpected arm `{pat}`"));
        };
        let (p, k, anon) = one(&toks(&arm.body), path, "token_auth_ldap")?;
        let s = toks(&arm.body);
        let carried = if path == "tokenUat" { "LdapSession :: UserAuthToken (uat)" } else { "LdapSession :: ApiToken (apit)" };
        if !s.contains(carried) && ((path == "tokenUat" && k == "UserAuthToken") || (path == "tokenApi" && k == "ApiToken")) {
            return Err(format!("token_auth_ldap: {path} session does not carry the verified token"));
        }
        sessions.push((p, k, anon));
    }
    // --- application_auth_ldap
    let f = find_fn(&app, "IdmServerAuthTransaction::application_auth_ldap")?;
    let s = toks(&f.block);
    let mut checks = vec![
        (pos(&s, "if account . is_anonymous () { return Err (", "anonymous refusal", "application_auth_ldap")?, "notAnonymous"),
        (pos(&s, "if ! account . is_within_valid_time (ct) {", "validity check", "application_auth_ldap")?, "validTime"),
        (pos(&s, ". applications . inner . set . get (& lae . application)", "application lookup", "application_auth_ldap")?, "appExists"),
        (pos(&s, "if ! is_memberof {", "linked group check", "application_auth_ldap")?, "memberOfLinkedGroup"),
        (pos(&s, "account . verify_application_password (application , lae . cleartext . as_str ())", "password verification", "application_auth_ldap")?, "verifyPassword"),
    ];
    checks.sort();
    // the membership refusal must return `Ok(None)` before the password is looked at
    let mpos = s.find("if ! is_memberof {").unwrap_or(0);
    let after = &s[mpos..];
    let refuses = after.find("return Ok (None) ;").map(|i| i < after.find("verify_application_password").unwrap_or(usize::MAX)).unwrap_or(false);
    if !refuses {
        return Err("application_auth_ldap: `if !is_memberof` does not refuse with Ok(None) before the password check".into());
    }
    let app_memberof_linked_group = s.contains(
        "let is_memberof = usr_entry . get_ava_refer (Attribute :: MemberOf) . map (| member_of_set | member_of_set . contains (& application . linked_group)) . unwrap_or_default () ;",
    );
    let (p, k, anon) = one(&s, "application", "application_auth_ldap")?;
    if k == "UnixBind" && !s.contains("LdapSession :: UnixBind (account . uuid)") {
        return Err("application_auth_ldap: session is not bound to account.uuid".into());
    }
    sessions.push((p, k, anon));
    // --- do_bind: target ↦ authentication function
    let f = find_fn(&ldap, "LdapServer::do_bind")?;
    let m = find_match_on(&f.block, "target").ok_or("do_bind: no `match target`")?;
    let mut ok = m.arms.len() == 3;
    for arm in &m.arms {
        let pat = toks(&arm.pat);
        let body = toks(&arm.body);
        let want = if pat.starts_with("LdapBindTarget :: Account (") {
            "idm_auth . auth_ldap (& lae , ct)"
        } else if pat == "LdapBindTarget :: ApiToken" {
            "idm_auth . token_auth_ldap (& lae , ct)"
        } else if pat.starts_with("LdapBindTarget :: Application (") {
            "idm_auth . application_auth_ldap (& lae , ct)"
        } else {
            return Err(format!("do_bind: unexpected target arm `{pat}`"));
        };
        let n_auth = ["auth_ldap (", "token_auth_ldap (", "application_auth_ldap ("].iter().map(|k| body.matches(&format!(". {k}")).count()).sum::<usize>();
        if !body.contains(want) || n_auth != 1 {
            ok = false;
        }
    }
    // --- IdmServerAuthTransaction::commit
    let f = find_fn(&server, "IdmServerAuthTransaction::commit")?;
    let auth_commit_noop = toks(&f.block) == "{ Ok (()) }";
    Ok(Binds {
        unix_flag_guard,
        anon_test,
        sessions,
        app_checks: checks.into_iter().map(|(_, c)| c.to_string()).collect(),
        app_memberof_linked_group,
        bind_target_auth_ok: ok,
        auth_commit_noop,
        token_bind_validates_uat,
        token_bind_validates_apit,
    })
}

struct Idents {
    session_ident: Vec<(String, String)>,
    ldap_uuid_scope: String,
    ldap_uuid_entry_anonymous: bool,
    ldap_uuid_checks_validity: bool,
    apit_scope_from_purpose: bool,
    apit_entry_is_accounts: bool,
    apit_scope: Vec<(String, String)>,
}

fn identity_new_args(f: &FoundFn, name: &str) -> Result<Vec<String>, String> {
    struct C(Vec<Vec<String>>);
    impl<'ast> Visit<'ast> for C {
        fn visit_expr_call(&mut self, c: &'ast syn::ExprCall) {
            if toks(&c.func) == "Identity :: new" {
                self.0.push(c.args.iter().map(toks).collect());
            }
            syn::visit::visit_expr_call(self, c);
        }
    }
    let mut c = C(vec![]);
    c.visit_block(&f.block);
    match c.0.len() {
        1 => Ok(c.0.remove(0)),
        n => Err(format!("{name}: {n} calls of Identity::new")),
    }
}

fn idents(repo: &str) -> Result<Idents, String> {
    let server = parse_file(repo, "server/lib/src/idm/server.rs")?;
    let identity = parse_file(repo, "server/lib/src/server/identity.rs")?;
    // validate_ldap_session
    let f = find_fn(&server, "IdmServerTransaction::validate_ldap_session")?;
    let m = find_match_on(&f.block, "session").ok_or("validate_ldap_session: no `match session`")?;
    let mut session_ident = vec![];
    for arm in &m.arms {
        let pats: Vec<String> = match &arm.pat {
            syn::Pat::Or(o) => o.cases.iter().map(toks).collect(),
            p => vec![toks(p)],
        };
        let body = toks(&arm.body);
        let fns: Vec<&str> = ["process_ldap_uuid_to_identity", "process_uat_to_identity", "process_apit_to_identity"]
            .into_iter()
            .filter(|k| body.contains(&format!("self . {k} (")))
            .collect();
        let target = match fns.as_slice() {
            ["process_ldap_uuid_to_identity"] => ".ldapUuid",
            ["process_uat_to_identity"] => ".uat",
            ["process_apit_to_identity"] => ".apit",
            other => return Err(format!("validate_ldap_session: arm calls {other:?}")),
        };
        for p in pats {
            let k = ["UnixBind", "UserAuthToken", "ApiToken", "ApplicationPasswordBind"]
                .into_iter()
                .find(|k| p.starts_with(&format!("LdapSession :: {k} (")))
                .ok_or_else(|| format!("validate_ldap_session: unexpected pattern `{p}`"))?;
            // which payload reaches the builder
            match k {
                "UnixBind" if p != "LdapSession :: UnixBind (uuid)" => return Err(format!("validate_ldap_session: `{p}`")),
                "ApplicationPasswordBind" if p != "LdapSession :: ApplicationPasswordBind (_ , uuid)" => {
                    return Err(format!("validate_ldap_session: `{p}`"))
                }
                _ => {}
            }
            session_ident.push((lc(k), target.to_string()));
        }
        if target == ".ldapUuid" && !body.contains("self . process_ldap_uuid_to_identity (uuid , ct , source)") {
            return Err("validate_ldap_session: process_ldap_uuid_to_identity is not given the session's uuid".into());
        }
        if target == ".apit" && !(body.contains("internal_search_uuid (apit . account_id)") && body.contains("self . process_apit_to_identity (apit , source , entry , ct)")) {
            return Err("validate_ldap_session: api token arm does not load apit.account_id's entry".into());
        }
        if target == ".uat" && !body.contains("self . process_uat_to_identity (uat , ct , source)") {
            return Err("validate_ldap_session: uat arm shape".into());
        }
    }
    for k in [".unixBind", ".userAuthToken", ".apiToken", ".applicationPasswordBind"] {
        if session_ident.iter().filter(|(s, _)| s == k).count() != 1 {
            return Err(format!("validate_ldap_session: LdapSession{k} does not have exactly one arm"));
        }
    }
    // process_ldap_uuid_to_identity
    let f = find_fn(&server, "IdmServerTransaction::process_ldap_uuid_to_identity")?;
    let args = identity_new_args(&f, "process_ldap_uuid_to_identity")?;
    if args.len() != 6 {
        return Err("process_ldap_uuid_to_identity: Identity::new arity".into());
    }
    let scope = args[3]
        .strip_prefix("AccessScope :: ")
        .ok_or_else(|| format!("process_ldap_uuid_to_identity: scope argument `{}` is not a constant", args[3]))?;
    let ldap_uuid_scope = match scope {
        "ReadOnly" | "ReadWrite" | "Synchronise" => lc(scope),
        o => return Err(format!("process_ldap_uuid_to_identity: unknown scope {o}")),
    };
    let s = toks(&f.block);
    let anon_let = "let anon_entry = if * uuid == UUID_ANONYMOUS { entry } else { self . get_qs_txn () . internal_search_uuid (UUID_ANONYMOUS)";
    let ldap_uuid_entry_anonymous =
        args[0] == "IdentType :: User (IdentUser { entry : anon_entry })" && s.contains(anon_let) && s.contains("internal_search_uuid (* uuid)");
    let ldap_uuid_checks_validity = match (s.find("if ! account . is_within_valid_time (ct) {"), s.find("Identity :: new")) {
        (Some(a), Some(b)) if a < b => s[a..b].contains("return Err (OperationError :: SessionExpired) ;"),
        _ => false,
    };
    // process_apit_to_identity
    let f = find_fn(&server, "IdmServerTransaction::process_apit_to_identity")?;
    let args = identity_new_args(&f, "process_apit_to_identity")?;
    let s = toks(&f.block);
    let apit_scope_from_purpose = s.contains("let scope = (& apit . purpose) . into () ;") && args.get(3).map(|a| a == "scope").unwrap_or(false);
    let apit_entry_is_accounts = args.first().map(|a| a == "IdentType :: User (IdentUser { entry })").unwrap_or(false);
    // From<&ApiTokenPurpose> for AccessScope
    let mut apit_scope = vec![];
    for it in &identity.items {
        if let syn::Item::Impl(i) = it {
            let tr = i.trait_.as_ref().map(|(_, p, _)| toks(p)).unwrap_or_default();
            if tr == "From < & ApiTokenPurpose >" && toks(&i.self_ty) == "AccessScope" {
                for ii in &i.items {
                    if let syn::ImplItem::Fn(f) = ii {
                        let m = match f.block.stmts.as_slice() {
                            [syn::Stmt::Expr(syn::Expr::Match(m), None)] => m.clone(),
                            _ => return Err("From<&ApiTokenPurpose>: body is not a match".into()),
                        };
                        for arm in &m.arms {
                            let p = toks(&arm.pat);
                            let b = toks(&arm.body);
                            let p = p.strip_prefix("ApiTokenPurpose :: ").ok_or_else(|| format!("From<&ApiTokenPurpose>: `{p}`"))?;
                            let b = b.strip_prefix("AccessScope :: ").ok_or_else(|| format!("From<&ApiTokenPurpose>: `{b}`"))?;
                            for x in [p, b] {
                                if !["ReadOnly", "ReadWrite", "Synchronise"].contains(&x) {
                                    return Err(format!("From<&ApiTokenPurpose>: unknown variant {x}"));
                                }
                            }
                            apit_scope.push((lc(p), lc(b)));
                        }
                    }
                }
            }
        }
    }
    if apit_scope.len() != 3 {
        return Err(format!("From<&ApiTokenPurpose> for AccessScope: {} arms", apit_scope.len()));
    }
    Ok(Idents {
        session_ident,
        ldap_uuid_scope,
        ldap_uuid_entry_anonymous,
        ldap_uuid_checks_validity,
        apit_scope_from_purpose,
        apit_entry_is_accounts,
        apit_scope,
    })
}

// ---------------------------------------------------------------------------------------------
// wire layer (server/core)
// ---------------------------------------------------------------------------------------------

struct Wire {
    refusal_state: String,
    refusal_code: String,
    dispatch_to_do_op: bool,
    /// (state, sets session, closes)
    effects: Vec<(String, bool, bool)>,
    starts_unbound: bool,
}

fn wire(repo: &str) -> Result<Wire, String> {
    let v1 = parse_file(repo, "server/core/src/actors/v1_read.rs")?;
    let f = find_fn(&v1, "QueryServerReadV1::handle_ldaprequest")?;
    let m = find_match_on(&f.block, "ServerOps :: try_from (protomsg)").ok_or("handle_ldaprequest: no `match ServerOps::try_from(protomsg)`")?;
    if m.arms.len() != 2 {
        return Err("handle_ldaprequest: expected Ok / Err arms".into());
    }
    let mut dispatch = false;
    let mut refusal = None;
    for arm in &m.arms {
        let p = toks(&arm.pat);
        let b = toks(&arm.body);
        if p == "Ok (server_op)" {
            dispatch = b.starts_with("self . ldap . do_op (& self . idms , server_op , uat , ip_addr , eventid) . await");
        } else if p == "Err (_)" {
            let pre = "LdapResponseState :: Disconnect (DisconnectionNotice :: gen_response (LdapResultCode :: ";
            let code = b.strip_prefix(pre).map(|r| r.split(' ').next().unwrap_or("").to_string());
            refusal = code.map(|c| ("disconnect".to_string(), c));
        } else {
            return Err(format!("handle_ldaprequest: unexpected arm `{p}`"));
        }
    }
    let (refusal_state, code) = refusal.ok_or("handle_ldaprequest: the Err arm is not a Disconnect notice")?;
    let refusal_code = match code.as_str() {
        "ProtocolError" => ".protocolError",
        "Other" => ".other",
        "UnwillingToPerform" => ".unwillingToPerform",
        o => return Err(format!("handle_ldaprequest: refusal code {o}")),
    }
    .to_string();
    // client_process
    let l = parse_file(repo, "server/core/src/ldaps.rs")?;
    let f = find_fn(&l, "client_process")?;
    let s = toks(&f.block);
    let starts_unbound = s.contains("let mut session = LdapSession :: new () ;") && {
        let n = find_fn(&l, "LdapSession::new")?;
        toks(&n.block) == "{ LdapSession { uat : None , } }"
    };
    if !s.contains("let uat = session . uat . clone () ;") {
        return Err("client_process: the request is not given `session.uat.clone()`".into());
    }
    let m = find_match_on(&f.block, "client_process_msg (uat , caddr , protomsg , qe_r_ref , logging_pipeline) . await")
        .ok_or("client_process: no match on client_process_msg(..)")?;
    let mut effects = vec![];
    for arm in &m.arms {
        let p = toks(&arm.pat);
        if p == "None" {
            continue;
        }
        let k = ["Unbind", "Disconnect", "BindMultiPartResponse", "MultiPartResponse", "Bind", "Respond"]
            .into_iter()
            .find(|k| p == format!("Some (LdapResponseState :: {k})") || p.starts_with(&format!("Some (LdapResponseState :: {k} (")))
            .ok_or_else(|| format!("client_process: unexpected arm `{p}`"))?;
        let b = toks(&arm.body);
        let sets = b.contains("session . uat = Some (uat) ;");
        if b.contains("session . uat =") && !sets {
            return Err(format!("client_process: arm {k} assigns the session from something else"));
        }
        if sets && !(p.contains("(uat ,")) {
            return Err(format!("client_process: arm {k} sets a session it did not receive"));
        }
        let closes = match &*arm.body {
            syn::Expr::Break(_) => true,
            syn::Expr::Block(bl) => matches!(bl.block.stmts.last(), Some(syn::Stmt::Expr(syn::Expr::Break(_), _))),
            _ => false,
        };
        let name = match k {
            "Unbind" => ".unbind",
            "Disconnect" => ".disconnect",
            "Bind" => ".bind",
            "Respond" => ".respond",
            "MultiPartResponse" => ".multiPart",
            _ => ".bindMultiPart",
        };
        effects.push((name.to_string(), sets, closes));
    }
    if effects.len() != 6 {
        return Err(format!("client_process: {} response-state arms", effects.len()));
    }
    Ok(Wire { refusal_state, refusal_code, dispatch_to_do_op: dispatch, effects, starts_unbound })
}

// ---------------------------------------------------------------------------------------------
// output
// ---------------------------------------------------------------------------------------------

fn b(x: bool) -> &'static str {
    if x { "true" } else { "false" }
}

fn tables(repo: &str, out: &str) -> Result<String, String> {
    let (dir, version) = ldap3_proto_dir(repo)?;
    let dispatch = wire_dispatch(&dir)?;
    let ldap = parse_file(repo, "server/lib/src/idm/ldap.rs")?;
    let server = parse_file(repo, "server/lib/src/idm/server.rs")?;
    let d = do_op(&ldap)?;
    let ht = handler_txns(&ldap)?;
    let tq = txn_qs(&server)?;
    let fns = reachable(repo)?;
    let (writes, delayed) = scan(&fns);
    let bi = binds(repo)?;
    let id = idents(repo)?;
    let w = wire(repo)?;

    let mut s = String::new();
    s.push_str(&format!(
        "-- GENERATED by vtranslate (item ldap-gateway-tables) from ldap3_proto-{version} src/{{proto,simple}}.rs, server/lib/src/idm/{{ldap,server,application}}.rs, server/lib/src/server/identity.rs, server/core/src/actors/v1_read.rs, server/core/src/ldaps.rs. Do not edit: rewritten on every check run.\n"
    ));
    s.push_str("import KanidmModel.LdapGatewayTypes\nset_option linter.unusedVariables false\nnamespace Kanidm.Ldap.Gen\nopen Kanidm.Ldap\n\n");
    s.push_str("/-- `ServerOps::try_from(LdapMsg)`: wire operation ↦ server operation (`none` = `Err(())`) -/\ndef wireDispatch : WireOp → Option ServerOp\n");
    for (wop, sop) in &dispatch {
        match sop {
            Some(o) => s.push_str(&format!("  | .{wop} => some {}\n", lc(o))),
            None => s.push_str(&format!("  | .{wop} => none\n")),
        }
    }
    s.push_str(&format!(
        "/-- `handle_ldaprequest`: `Ok(server_op) => self.ldap.do_op(..)` -/\ndef wireDispatchesToDoOp : Bool := {}\n",
        b(w.dispatch_to_do_op)
    ));
    s.push_str(&format!(
        "/-- `handle_ldaprequest`: `Err(_) => LdapResponseState::Disconnect(gen_response(LdapResultCode::..))` -/\ndef wireRefusal : RespKind := .{}\ndef wireRefusalCode : Code := {}\n",
        w.refusal_state, w.refusal_code
    ));
    s.push_str("/-- `client_process`: response state ↦ (stores the returned token as the connection's session, closes the connection) -/\ndef respEffect : RespKind → Bool × Bool\n");
    for (k, sets, closes) in &w.effects {
        s.push_str(&format!("  | {k} => ({}, {})\n", b(*sets), b(*closes)));
    }
    s.push_str(&format!("/-- `LdapSession::new()` of the wire layer: `uat: None` -/\ndef connectionStartsUnbound : Bool := {}\n", b(w.starts_unbound)));
    s.push_str("/-- `do_op`: handlers called, in source order, per operation on a bound (`true`) / unbound connection -/\ndef doOpCalls : ServerOp → Bool → List Handler\n");
    for (op, bound, hs) in &d.calls {
        s.push_str(&format!("  | {}, {} => [{}]\n", lc(op), b(*bound), hs.join(", ")));
    }
    s.push_str("/-- `do_op`: `LdapResponseState` constructors named per operation, bound / unbound, in source order -/\ndef doOpStates : ServerOp → Bool → List RespKind\n");
    for (op, bound, st) in &d.states {
        let names: Vec<String> = st
            .iter()
            .map(|k| match k.as_str() {
                "Unbind" => ".unbind",
                "Disconnect" => ".disconnect",
                "Bind" => ".bind",
                "Respond" => ".respond",
                "MultiPartResponse" => ".multiPart",
                _ => ".bindMultiPart",
            }
            .to_string())
            .collect();
        s.push_str(&format!("  | {}, {} => [{}]\n", lc(op), b(*bound), names.join(", ")));
    }
    s.push_str(&format!(
        "/-- the implicit bind of an unbound search / compare is `do_bind(idms, \"\", \"\")` -/\ndef implicitBindAnonymous : Bool := {}\n/-- bound search / compare are given the connection's token `&u` -/\ndef boundUsesSessionToken : Bool := {}\n/-- unbound search / compare are given the implicit bind's token `&lbt` -/\ndef unboundUsesImplicitToken : Bool := {}\n",
        b(d.implicit_anonymous), b(d.bound_uses_session_token), b(d.unbound_uses_implicit_token)
    ));
    s.push_str("/-- transaction constructors each handler calls on `idms`, in source order -/\ndef handlerTxns : Handler → List TxnCtor\n");
    for (h, t) in &ht {
        s.push_str(&format!("  | {h} => [{}]\n", t.join(", ")));
    }
    s.push_str("/-- `IdmServer::{auth, proxy_read, proxy_write}`: the QueryServer transaction opened (`self.qs.read()` / `self.qs.write(ts)`) -/\ndef txnQs : TxnCtor → QsKind\n");
    for (t, k) in &tq {
        s.push_str(&format!("  | {t} => {k}\n"));
    }
    s.push_str(&format!("/-- `IdmServerAuthTransaction::commit` is `Ok(())` -/\ndef authCommitNoop : Bool := {}\n", b(bi.auth_commit_noop)));
    s.push_str(&format!(
        "/-- write-API calls (`{}` …, field `qs_write`, `.qs.write`) in the functions reachable from `do_op`: {} -/\ndef writeApiCalls : List (String × String) := [{}]\n",
        WRITE_METHODS[..6].join("`, `"),
        fns.iter().map(|(n, _)| n.as_str()).collect::<Vec<_>>().join(", "),
        writes.iter().map(|(f, c)| format!("(\"{f}\", \"{}\")", c.replace('"', "'"))).collect::<Vec<_>>().join(", ")
    ));
    s.push_str(&format!(
        "/-- `DelayedAction::_` variants named in those functions -/\ndef delayedSends : List (String × DelayedKind) := [{}]\n",
        delayed
            .iter()
            .map(|(f, v)| format!("(\"{f}\", {})", if v == "UnixPwUpgrade" { ".unixPwUpgrade" } else { ".other" }))
            .collect::<Vec<_>>()
            .join(", ")
    ));
    s.push_str(&format!("/-- `do_bind`: Account ↦ auth_ldap, ApiToken ↦ token_auth_ldap, Application ↦ application_auth_ldap, one call each -/\ndef bindTargetAuthAsModelled : Bool := {}\n", b(bi.bind_target_auth_ok)));
    s.push_str(&format!("/-- `auth_ldap`: `if lae.target == UUID_ANONYMOUS` -/\ndef anonymousTestIsUuidEq : Bool := {}\n", b(bi.anon_test)));
    s.push_str(&format!(
        "/-- `auth_ldap`, non-anonymous branch: `if !self.qs_read.d_info.d_ldap_allow_unix_pw_bind {{ .. return Ok(None); }}` before `auth_with_unix_pass` -/\ndef unixFlagGuard : Bool := {}\n",
        b(bi.unix_flag_guard)
    ));
    s.push_str(&format!(
        "/-- `token_auth_ldap`: `self.process_uat_to_identity(&uat, ct, ..)?` / `self.process_apit_to_identity(&apit, .., entry.clone(), ct)?` run before the token is handed out -/\ndef tokenBindValidatesUat : Bool := {}\ndef tokenBindValidatesApit : Bool := {}\n",
        b(bi.token_bind_validates_uat), b(bi.token_bind_validates_apit)
    ));
    s.push_str("/-- the `LdapSession` each successful bind path builds -/\ndef bindSession : BindPath → SessionKind\n");
    for (p, k, _) in &bi.sessions {
        s.push_str(&format!("  | .{p} => {}\n", lc(k)));
    }
    s.push_str("/-- whether that session names the constant `UUID_ANONYMOUS` (else the authenticated account / the verified token) -/\ndef bindSessionIsAnonymousConst : BindPath → Bool\n");
    for (p, _, a) in &bi.sessions {
        s.push_str(&format!("  | .{p} => {}\n", b(*a)));
    }
    s.push_str(&format!(
        "/-- `application_auth_ldap`: its checks in source order -/\ndef appBindChecks : List AppCheck := [{}]\n/-- `is_memberof` = `usr_entry.get_ava_refer(MemberOf)` contains `application.linked_group` -/\ndef appMemberOfReadsLinkedGroup : Bool := {}\n",
        bi.app_checks.iter().map(|c| format!(".{c}")).collect::<Vec<_>>().join(", "),
        b(bi.app_memberof_linked_group)
    ));
    s.push_str("/-- `validate_ldap_session`: session kind ↦ identity builder -/\ndef sessionIdent : SessionKind → IdentFn\n");
    for k in [".unixBind", ".userAuthToken", ".apiToken", ".applicationPasswordBind"] {
        let t = &id.session_ident.iter().find(|(s, _)| s == k).unwrap().1;
        s.push_str(&format!("  | {k} => {t}\n"));
    }
    s.push_str(&format!(
        "/-- `process_ldap_uuid_to_identity`: the scope constant given to `Identity::new` -/\ndef ldapUuidScope : Scope := {}\n/-- … its entry is `anon_entry` (= the bound entry when it is UUID_ANONYMOUS, else `internal_search_uuid(UUID_ANONYMOUS)`) -/\ndef ldapUuidEntryAnonymous : Bool := {}\n/-- … `if !account.is_within_valid_time(ct) {{ return Err(SessionExpired) }}` precedes it -/\ndef ldapUuidChecksValidity : Bool := {}\n",
        id.ldap_uuid_scope, b(id.ldap_uuid_entry_anonymous), b(id.ldap_uuid_checks_validity)
    ));
    s.push_str(&format!(
        "/-- `process_apit_to_identity`: `let scope = (&apit.purpose).into()` is the scope given to `Identity::new` -/\ndef apitScopeFromPurpose : Bool := {}\n/-- … and the identity's entry is the `entry` argument (the token account's) -/\ndef apitEntryIsAccounts : Bool := {}\n",
        b(id.apit_scope_from_purpose), b(id.apit_entry_is_accounts)
    ));
    s.push_str("/-- `impl From<&ApiTokenPurpose> for AccessScope` -/\ndef apitScope : ApiPurpose → Scope\n");
    for (p, sc) in &id.apit_scope {
        s.push_str(&format!("  | {p} => {sc}\n"));
    }
    s.push_str("end Kanidm.Ldap.Gen\n");

    let path = format!("{out}/LdapGatewayOps.lean");
    if !std::fs::read_to_string(&path).map(|old| old == s).unwrap_or(false) {
        std::fs::write(&path, &s).map_err(|e| format!("{path}: {e}"))?;
    }
    Ok(format!(
        "ldap-gateway-tables: ldap3_proto-{version}: {} wire ops ({} dispatched); {} do_op arms; write-API calls {}; delayed {:?}",
        dispatch.len(),
        dispatch.iter().filter(|(_, s)| s.is_some()).count(),
        d.calls.len(),
        writes.len(),
        delayed
    ))
}
