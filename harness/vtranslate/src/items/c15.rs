//! C15 translator item `schema-check-ops`: everything the Lean model of the schema check takes from
//! the source, re-read on every run for `KanidmModel/Generated/SchemaCheckOps.lean`:
//!
//! * `Entry<EntryValid,_>::validate` (entry.rs): the order of its exits, the three classes it tests
//!   (`conflict` exempt, `recycled` softens the must check, `extensibleobject` switches arms), the
//!   `SchemaClass` field chains behind supplements / excludes / must / may, the supplements
//!   quantifier, the phantom test of the extensible arm;
//! * `SchemaAttribute::validate_ava` (schema.rs): the cardinality condition (as an expression), the
//!   syntax equality and the `ava.validate(self)` conjunct;
//! * `Entry<EntryInvalid,_>::validate`, `Entry<EntryRefresh,_>::validate`: the single-uuid pre-check;
//! * `validate_repl`: classes and attribute added on failure; `seal`: attributes written after
//!   validation; `to_recycled` / `to_revived`;
//! * every call of a backend write (`self.be_txn.{create,modify,incremental_apply,refresh}`) in
//!   `server/lib/src/{server,repl,plugins,idm}` outside tests: the set of functions containing one
//!   must be exactly the known store paths; for each of them the ordered list of candidate rewrites
//!   (`&mut` plugin hooks, modlist application, state transitions), `validate` / `validate_repl`,
//!   `seal`, the write itself and the post hooks, plus a def-use check that the variable handed to
//!   the backend is bound directly to the `validate → seal` chain and is not `mut`.
//!
//! An unrecognised shape is an error, never a guess.
use crate::util::*;
use quote::ToTokens;
use syn::visit::Visit;

pub fn run(item: &str, repo: &str, out: &str) -> Option<Result<String, String>> {
    match item {
        "schema-check-ops" => Some(schema_check_ops(repo, out)),
        _ => None,
    }
}

fn squash<T: ToTokens>(t: &T) -> String {
    t.to_token_stream().to_string().chars().filter(|c| !c.is_whitespace()).collect()
}

fn count(hay: &str, needle: &str) -> usize {
    hay.matches(needle).count()
}

fn need(hay: &str, what: &str, needles: &[&str]) -> Result<(), String> {
    for n in needles {
        if count(hay, n) != 1 {
            return Err(format!("{what}: expected exactly one `{n}`, found {}", count(hay, n)));
        }
    }
    Ok(())
}

/// text between `pre` and the next `post` (first occurrence of `pre`, which must be unique)
fn between<'a>(hay: &'a str, what: &str, pre: &str, post: &str) -> Result<&'a str, String> {
    if count(hay, pre) != 1 {
        return Err(format!("{what}: expected exactly one `{pre}`, found {}", count(hay, pre)));
    }
    let s = hay.find(pre).unwrap() + pre.len();
    let e = hay[s..].find(post).ok_or_else(|| format!("{what}: `{post}` not found after `{pre}`"))?;
    Ok(&hay[s..s + e])
}

/// a method of `impl<..> Entry<A, B>` selected by the squashed self type
fn find_entry_fn(file: &syn::File, self_ty: &str, name: &str) -> Result<FoundFn, String> {
    let mut found = vec![];
    for it in &file.items {
        if let syn::Item::Impl(i) = it {
            if i.trait_.is_none() && squash(&i.self_ty) == self_ty {
                for m in &i.items {
                    if let syn::ImplItem::Fn(f) = m {
                        if f.sig.ident == name {
                            found.push(FoundFn { sig: f.sig.clone(), block: f.block.clone() });
                        }
                    }
                }
            }
        }
    }
    match found.len() {
        1 => Ok(found.remove(0)),
        n => Err(format!("`{self_ty}::{name}`: {n} definitions")),
    }
}

fn cls(name: &str) -> Result<&'static str, String> {
    Ok(match name {
        "Conflict" => "conflict",
        "Recycled" => "recycled",
        "ExtensibleObject" => "extensibleObject",
        "Object" => "object",
        "Tombstone" => "tombstone",
        o => return Err(format!("entry class `{o}` is not one the model knows")),
    })
}

fn attr(name: &str) -> Result<&'static str, String> {
    Ok(match name {
        "Class" => "class_",
        "Uuid" => "uuid",
        "LastModifiedCid" => "lastModifiedCid",
        "CreatedAtCid" => "createdAtCid",
        "SourceUuid" => "sourceUuid",
        o => return Err(format!("attribute `{o}` is not one the model knows")),
    })
}

fn field(name: &str) -> Result<&'static str, String> {
    Ok(match name {
        "systemmust" => "systemmust",
        "must" => "must",
        "systemmay" => "systemmay",
        "may" => "may",
        "systemsupplements" => "systemsupplements",
        "supplements" => "supplements",
        "systemexcludes" => "systemexcludes",
        "excludes" => "excludes",
        o => return Err(format!("`{o}` is not a list of SchemaClass")),
    })
}

/// all `cls.<field>.iter()` of a squashed expression, in order
fn chain_fields(expr: &str, what: &str) -> Result<Vec<&'static str>, String> {
    let mut out = vec![];
    let mut rest = expr;
    while let Some(p) = rest.find("cls.") {
        let tail = &rest[p + 4..];
        let name: String = tail.chars().take_while(|c| c.is_alphanumeric() || *c == '_').collect();
        if !tail[name.len()..].starts_with(".iter()") {
            return Err(format!("{what}: `cls.{name}` is not followed by `.iter()`"));
        }
        out.push(field(&name)?);
        rest = &tail[name.len()..];
    }
    if out.is_empty() {
        return Err(format!("{what}: no `cls.<list>.iter()` found"));
    }
    Ok(out)
}

/// `let <name> ... = <init>;` statements of a block (any depth), squashed
struct Lets(Vec<(String, bool, String)>);
impl<'ast> Visit<'ast> for Lets {
    fn visit_local(&mut self, l: &'ast syn::Local) {
        fn pat_ident(p: &syn::Pat) -> Option<(String, bool)> {
            match p {
                syn::Pat::Ident(i) => Some((i.ident.to_string(), i.mutability.is_some())),
                syn::Pat::Type(t) => pat_ident(&t.pat),
                _ => None,
            }
        }
        if let (Some((n, m)), Some(init)) = (pat_ident(&l.pat), &l.init) {
            self.0.push((n, m, squash(&init.expr)));
        }
        syn::visit::visit_local(self, l);
    }
}

fn lets_of(block: &syn::Block) -> Vec<(String, bool, String)> {
    let mut v = Lets(vec![]);
    v.visit_block(block);
    v.0
}

/// the variable handed to the backend is bound (possibly through `let x = y?;`) to an expression
/// that validates and then seals, and is not `mut`
fn resolves_to_chain(lets: &[(String, bool, String)], var: &str, what: &str, depth: usize) -> Result<(), String> {
    resolve_before(lets, lets.len(), var, what, depth)
}

fn resolve_before(lets: &[(String, bool, String)], limit: usize, var: &str, what: &str, depth: usize) -> Result<(), String> {
    if depth > 6 {
        return Err(format!("{what}: `{var}` does not resolve to a validate→seal chain"));
    }
    // the latest binding of that name (shadowing `let x = x?;` is followed back)
    let idx = match lets[..limit].iter().rposition(|l| l.0 == var) {
        Some(i) => i,
        None => return Err(format!("{what}: `{var}` has no binding")),
    };
    let (_, is_mut, init) = &lets[idx];
    if *is_mut {
        return Err(format!("{what}: `{var}` is `mut` between validation and the backend write"));
    }
    for v in [".validate(&self.schema)", ".validate_repl(&self.schema)"] {
        if let Some(p) = init.find(v) {
            if init[p..].contains(".seal(&self.schema)") {
                return Ok(());
            }
            return Err(format!("{what}: `{var}` is validated but not sealed"));
        }
    }
    if let Some(inner) = init.strip_suffix('?') {
        if inner.chars().all(|c| c.is_alphanumeric() || c == '_') {
            return resolve_before(lets, idx, inner, what, depth + 1);
        }
    }
    if init.starts_with("ModifyPartial{norm_cand,") {
        return resolve_before(lets, idx, "norm_cand", what, depth + 1);
    }
    Err(format!("{what}: `{var}` is bound to `{}`, not to a validate→seal chain", init.chars().take(80).collect::<String>()))
}

#[derive(Clone, Debug, PartialEq)]
enum Ev {
    Mutate(String),
    Validate,
    ValidateRepl,
    Seal,
    Store(String, String), // method, stored variable
    StoreConflictCopies,
    Check(String),
    Post(String),
    CallModifyApply(String), // argument variable
    FilterValidate,
}

const MUTATORS: [&str; 11] = [
    "assign_cid", "invalidate", "apply_modlist", "to_recycled", "to_revived", "to_tombstone", "add_ava", "remove_ava", "set_ava_set", "merge_state", "resolve_add_conflict",
];
const STORES: [&str; 4] = ["create", "modify", "incremental_apply", "refresh"];

/// events of a function body in evaluation order (receiver, arguments, then the call itself)
struct Events {
    evs: Vec<Ev>,
    errs: Vec<String>,
}

impl<'ast> Visit<'ast> for Events {
    fn visit_expr_method_call(&mut self, m: &'ast syn::ExprMethodCall) {
        syn::visit::visit_expr_method_call(self, m);
        let name = m.method.to_string();
        let args: Vec<String> = m.args.iter().map(squash).collect();
        let recv = squash(&m.receiver);
        if recv == "self.be_txn" && STORES.contains(&name.as_str()) {
            let var = match name.as_str() {
                "incremental_apply" => args.first().cloned(),
                _ => args.last().cloned(),
            }
            .unwrap_or_default();
            let var = var.trim_start_matches('&').to_string();
            self.evs.push(Ev::Store(name.clone(), var));
            if name == "incremental_apply" {
                if args.len() == 2 && args[1] == "conflict_create" {
                    self.evs.push(Ev::StoreConflictCopies);
                } else {
                    self.errs.push(format!("incremental_apply arguments {args:?}"));
                }
            }
        } else if recv.ends_with("be_txn") && STORES.contains(&name.as_str()) {
            self.errs.push(format!("backend write through `{recv}`"));
        } else if name == "validate" && args == ["&self.schema"] {
            self.evs.push(Ev::Validate);
        } else if name == "validate" && args == ["self.get_schema()"] {
            self.evs.push(Ev::FilterValidate);
        } else if name == "validate_repl" {
            if args == ["&self.schema"] { self.evs.push(Ev::ValidateRepl) } else { self.errs.push(format!("validate_repl({args:?})")) }
        } else if name == "seal" {
            if args == ["&self.schema"] { self.evs.push(Ev::Seal) } else { self.errs.push(format!("seal({args:?})")) }
        } else if name == "modify_apply" && recv == "self" {
            self.evs.push(Ev::CallModifyApply(args.first().cloned().unwrap_or_default()));
        } else if MUTATORS.contains(&name.as_str()) {
            self.evs.push(Ev::Mutate(name));
        }
    }
    fn visit_expr_call(&mut self, c: &'ast syn::ExprCall) {
        syn::visit::visit_expr_call(self, c);
        let f = squash(&c.func);
        if let Some(hook) = f.strip_prefix("Plugins::") {
            let args: Vec<String> = c.args.iter().map(squash).collect();
            let writes = args.iter().any(|a| a.starts_with("&mut") || a.contains(".as_mut_slice()"));
            if hook.starts_with("run_post_") {
                self.evs.push(Ev::Post(hook.to_string()));
            } else if writes {
                self.evs.push(Ev::Mutate(hook.to_string()));
            } else {
                self.evs.push(Ev::Check(hook.to_string()));
            }
        }
    }
    fn visit_expr_path(&mut self, p: &'ast syn::ExprPath) {
        let s = squash(p);
        if s.ends_with("::from_repl_entry_v1") {
            self.evs.push(Ev::Mutate("from_repl_entry_v1".into()));
        }
    }
}

fn events_of(f: &FoundFn, what: &str) -> Result<Vec<Ev>, String> {
    let mut v = Events { evs: vec![], errs: vec![] };
    v.visit_block(&f.block);
    if !v.errs.is_empty() {
        return Err(format!("{what}: {}", v.errs.join("; ")));
    }
    Ok(v.evs)
}

/// every function (outside tests) that calls a backend write
struct StoreSites {
    cur: Vec<String>,
    found: Vec<String>,
}
impl<'ast> Visit<'ast> for StoreSites {
    fn visit_item_mod(&mut self, m: &'ast syn::ItemMod) {
        let is_test = m.attrs.iter().any(|a| squash(a).contains("cfg(test)"));
        if !is_test {
            syn::visit::visit_item_mod(self, m);
        }
    }
    fn visit_impl_item_fn(&mut self, f: &'ast syn::ImplItemFn) {
        if f.attrs.iter().any(|a| squash(a).contains("cfg(test)")) {
            return;
        }
        self.cur.push(f.sig.ident.to_string());
        syn::visit::visit_impl_item_fn(self, f);
        self.cur.pop();
    }
    fn visit_item_fn(&mut self, f: &'ast syn::ItemFn) {
        if f.attrs.iter().any(|a| squash(a).contains("cfg(test)") || squash(a).contains("test")) {
            return;
        }
        self.cur.push(f.sig.ident.to_string());
        syn::visit::visit_item_fn(self, f);
        self.cur.pop();
    }
    fn visit_expr_method_call(&mut self, m: &'ast syn::ExprMethodCall) {
        syn::visit::visit_expr_method_call(self, m);
        let recv = squash(&m.receiver);
        if (recv.ends_with("be_txn") || recv.ends_with("get_be_txn()")) && STORES.contains(&m.method.to_string().as_str()) {
            self.found.push(self.cur.last().cloned().unwrap_or_default());
        }
    }
}

fn rs_files(dir: &std::path::Path, out: &mut Vec<std::path::PathBuf>) -> Result<(), String> {
    for e in std::fs::read_dir(dir).map_err(|e| format!("{}: {e}", dir.display()))? {
        let p = e.map_err(|e| e.to_string())?.path();
        if p.is_dir() {
            rs_files(&p, out)?;
        } else if p.extension().map(|x| x == "rs").unwrap_or(false) && p.file_name().map(|n| n != "tests.rs").unwrap_or(true) {
            out.push(p);
        }
    }
    Ok(())
}

fn lean_step(e: &Ev) -> Result<String, String> {
    Ok(match e {
        Ev::Mutate(n) => format!(".mutate \"{n}\""),
        Ev::Validate => ".validate".into(),
        Ev::ValidateRepl => ".validateRepl".into(),
        Ev::Seal => ".sealing".into(),
        Ev::Store(m, _) => format!(".store \"{m}\""),
        Ev::StoreConflictCopies => ".storeConflictCopies".into(),
        Ev::Check(n) => format!(".check \"{n}\""),
        Ev::Post(n) => format!(".post \"{n}\""),
        Ev::CallModifyApply(_) | Ev::FilterValidate => return Err("internal: unresolved event".into()),
    })
}

fn schema_check_ops(repo: &str, out: &str) -> Result<String, String> {
    let entry = parse_file(repo, "server/lib/src/entry.rs")?;
    // ------------------------------------------------------------------ Entry<EntryValid,_>::validate
    let vf = find_entry_fn(&entry, "Entry<EntryValid,STATE>", "validate")?;
    let v = squash(&vf.block);
    // exits in source order
    struct Exits(Vec<&'static str>, Vec<String>);
    impl<'ast> Visit<'ast> for Exits {
        fn visit_expr_path(&mut self, p: &'ast syn::ExprPath) {
            let s = squash(p);
            if let Some(var) = s.strip_prefix("SchemaError::") {
                match var {
                    "NoClassFound" => self.0.push("noClassFound"),
                    "InvalidClass" => self.0.push("invalidClass"),
                    "SupplementsNotSatisfied" => self.0.push("supplementsNotSatisfied"),
                    "ExcludesNotSatisfied" => self.0.push("excludesNotSatisfied"),
                    "Corrupted" => self.0.push("corrupted"),
                    "MissingMustAttribute" => self.0.push("missingMustAttribute"),
                    "PhantomAttribute" => self.0.push("phantomAttribute"),
                    "InvalidAttribute" => self.0.push("invalidAttribute"),
                    "AttributeNotValidForClass" => self.0.push("attributeNotValidForClass"),
                    o => self.1.push(format!("unknown SchemaError::{o}")),
                }
            }
        }
        fn visit_expr_method_call(&mut self, m: &'ast syn::ExprMethodCall) {
            syn::visit::visit_expr_method_call(self, m);
            if m.method == "validate_ava" {
                self.0.push("avaCheck");
            }
        }
        fn visit_expr_return(&mut self, r: &'ast syn::ExprReturn) {
            if r.expr.as_ref().map(|e| squash(e) == "Ok(())").unwrap_or(false) {
                self.0.push("okConflict");
            }
            syn::visit::visit_expr_return(self, r);
        }
    }
    let mut ex = Exits(vec![], vec![]);
    ex.visit_block(&vf.block);
    if !ex.1.is_empty() {
        return Err(format!("validate: {}", ex.1.join("; ")));
    }
    match vf.block.stmts.last() {
        Some(syn::Stmt::Expr(e, None)) if squash(e) == "Ok(())" => ex.0.push("okEnd"),
        _ => return Err("validate: the function no longer ends in `Ok(())`".into()),
    }
    if ex.0.iter().filter(|x| **x == "okConflict").count() != 1 {
        return Err("validate: expected exactly one early `return Ok(())`".into());
    }
    // the three class tests
    let exempt = {
        let cond = between(&v, "validate/conflict", "ifself.attribute_equality(Attribute::Class,&EntryClass::", ".into()){")?;
        let after = &v[v.find(&format!("ifself.attribute_equality(Attribute::Class,&EntryClass::{cond}.into()){{")).unwrap()..];
        let blk = &after[..after.find('}').unwrap_or(0) + 1];
        if !blk.contains("returnOk(());") {
            return Err("validate: the class short-cut no longer returns Ok(())".into());
        }
        cls(cond)?
    };
    let recycled = cls(between(&v, "validate/recycled", "letrecycled=self.attribute_equality(Attribute::Class,&EntryClass::", ".into());")?)?;
    let extensible = cls(between(&v, "validate/extensible", "letextensible=self.attribute_equality(Attribute::Class,&EntryClass::", ".into());")?)?;
    need(
        &v,
        "validate",
        &[
            "if!self.attribute_pres(Attribute::Class){returnErr(SchemaError::NoClassFound);}",
            "letentry_classes=self.get_ava_set(Attribute::Class).ok_or_else(",
            "letentry_classes=ifletSome(ec)=entry_classes.as_iutf8_set(){",
            "matchschema_classes.get(s.as_str()){Some(x)=>classes.push(x),None=>{",
            "invalid_classes.push(s.to_string())",
            "if!invalid_classes.is_empty(){returnErr(SchemaError::InvalidClass(invalid_classes));}",
            "if!valid_supplements{",
            "returnErr(SchemaError::SupplementsNotSatisfied(supplements_classes));",
            "excludes_classes.iter().for_each(|class|{ifentry_classes.contains(class.as_str()){invalid_excludes.push(class.to_string())}});",
            "if!invalid_excludes.is_empty(){",
            "returnErr(SchemaError::ExcludesNotSatisfied(invalid_excludes));",
            "schema_attributes.get(s).ok_or(SchemaError::Corrupted)}).collect();letmust=must?;",
            "forattrinmust.iter(){letavas=self.get_ava_set(&attr.name);ifavas.is_none(){missing_must.push(attr.name.clone());}}",
            "if!missing_must.is_empty(){",
            "ifextensible{self.attrs.iter().try_for_each(|(attr_name,avas)|{matchschema_attributes.get(attr_name){Some(a_schema)=>{",
            "Err(SchemaError::InvalidAttribute(attr_name.to_string()))}",
            "Ok((s,schema_attributes.get(s).ok_or(SchemaError::Corrupted)?))}).collect();letmay=may?;",
            "self.attrs.iter().try_for_each(|(attr_name,avas)|{matchmay.get(attr_name){Some(a_schema)=>{a_schema.validate_ava(attr_name,avas)}None=>{",
        ],
    )?;
    let softened = if count(&v, "if!recycled{returnErr(SchemaError::MissingMustAttribute(missing_must));}") == 1 {
        true
    } else if count(&v, "returnErr(SchemaError::MissingMustAttribute(missing_must));") == 1 {
        false
    } else {
        return Err("validate: the missing-must exit is not in a recognised shape".into());
    };
    let supp_expr = between(&v, "validate/supplements", "letvalid_supplements=", ";if!valid_supplements")?;
    let (empty_ok, quant) = if supp_expr == "ifsupplements_classes.is_empty(){true}else{supplements_classes.iter().any(|class|entry_classes.contains(class.as_str()))}" {
        (true, "any")
    } else if supp_expr == "ifsupplements_classes.is_empty(){true}else{supplements_classes.iter().all(|class|entry_classes.contains(class.as_str()))}" {
        (true, "all")
    } else if supp_expr == "supplements_classes.iter().any(|class|entry_classes.contains(class.as_str()))" {
        (false, "any")
    } else {
        return Err(format!("validate: supplements test `{supp_expr}` not recognised"));
    };
    let supp_fields = chain_fields(between(&v, "validate/supplements chain", "letsupplements_classes:Vec<_>=classes.iter().flat_map(|cls|", ").collect();")?, "supplements")?;
    let excl_fields = chain_fields(between(&v, "validate/excludes chain", "letexcludes_classes:Vec<_>=classes.iter().flat_map(|cls|", ").collect();")?, "excludes")?;
    let must_fields = chain_fields(between(&v, "validate/must chain", "letmust:Result<Vec<&SchemaAttribute>,_>=classes.iter().flat_map(|cls|", ").map(|s|")?, "must")?;
    let may_fields = chain_fields(between(&v, "validate/may chain", "letmay:Result<Map<&Attribute,&SchemaAttribute>,_>=classes.iter().flat_map(|cls|{", "}).map(|s|")?, "may")?;
    let phantom = if count(&v, "ifa_schema.phantom{") == 1 && count(&v, "Err(SchemaError::PhantomAttribute(attr_name.to_string()))}else{a_schema.validate_ava(attr_name,avas)}") == 1 {
        true
    } else if count(&v, "a_schema.phantom") == 0 {
        false
    } else {
        return Err("validate: the phantom test of the extensible arm is not in a recognised shape".into());
    };
    // ------------------------------------------------------------------ validate_ava
    let schema = parse_file(repo, "server/lib/src/schema.rs")?;
    let va = find_fn(&schema, "SchemaAttribute::validate_ava")?;
    let vas = squash(&va.block);
    let conds = if_conditions(&va.block);
    if conds.len() != 2 {
        return Err(format!("validate_ava: expected two `if`s, found {}", conds.len()));
    }
    let single = lean_expr(&conds[0], &super::vars(&[("self.multivalue", "multivalue"), ("ava.len()", "len")]))?;
    need(&vas, "validate_ava", &["returnErr(SchemaError::InvalidAttributeSyntax(a.to_string()));", "Err(SchemaError::InvalidAttributeSyntax(a.to_string()))}"])?;
    let syn_eq = match count(&vas, "letvalid=self.syntax==ava.syntax();") {
        1 => true,
        _ => return Err("validate_ava: `let valid = self.syntax == ava.syntax();` not found".into()),
    };
    let vals_valid = match squash(&conds[1]).as_str() {
        "valid&&ava.validate(self)" => true,
        "valid" => false,
        o => return Err(format!("validate_ava: acceptance condition `{o}` not recognised")),
    };
    if count(&vas, "ifvalid&&ava.validate(self){Ok(())}else{") + count(&vas, "ifvalid{Ok(())}else{") != 1 {
        return Err("validate_ava: acceptance arm not in the expected shape".into());
    }
    // ------------------------------------------------------------------ entry points with the uuid pre-check
    let uuid_check = ".get(&Attribute::Uuid).ok_or_else(||SchemaError::MissingMustAttribute(vec![Attribute::Uuid])).and_then(|vs|{vs.to_uuid_single().ok_or_else(||SchemaError::MissingMustAttribute(vec![Attribute::Uuid]))})?;";
    let mut uuid_first = vec![];
    for ty in ["Entry<EntryInvalid,STATE>", "Entry<EntryRefresh,STATE>"] {
        let f = squash(&find_entry_fn(&entry, ty, "validate")?.block);
        if count(&f, "ne.validate(schema).map(|()|ne)") != 1 {
            return Err(format!("{ty}::validate: does not end in the schema check"));
        }
        uuid_first.push(count(&f, uuid_check) == 1 && f.find(uuid_check) < f.find("ne.validate(schema)"));
    }
    // ------------------------------------------------------------------ validate_repl, seal, to_recycled, to_revived, add_ava_int
    let vr = squash(&find_entry_fn(&entry, "Entry<EntryIncremental,EntryCommitted>", "validate_repl")?.block);
    need(&vr, "validate_repl", &["ifletErr(e)=ne.validate(schema){"])?;
    if !vr.ends_with("}ne}") {
        return Err("validate_repl: no longer returns the entry unconditionally".into());
    }
    let mut repl_classes = vec![];
    let mut rest = vr.as_str();
    while let Some(p) = rest.find("ne.add_ava_int(Attribute::Class,EntryClass::") {
        let tail = &rest[p + "ne.add_ava_int(Attribute::Class,EntryClass::".len()..];
        let n: String = tail.chars().take_while(|c| c.is_alphanumeric()).collect();
        repl_classes.push(cls(&n)?);
        rest = tail;
    }
    let repl_attr = {
        let tail = ",Value::Uuid(self.valid.uuid));";
        if count(&vr, tail) != 1 {
            return Err("validate_repl: the entry's own uuid is no longer recorded once".into());
        }
        let head = &vr[..vr.find(tail).unwrap()];
        let p = head.rfind("ne.add_ava_int(Attribute::").ok_or("validate_repl: uuid not recorded through add_ava_int")?;
        attr(&head[p + "ne.add_ava_int(Attribute::".len()..])?
    };
    if count(&vr, "add_ava_int(") != repl_classes.len() + 1 {
        return Err("validate_repl: unexpected add_ava_int calls".into());
    }
    let sealf = squash(&find_entry_fn(&entry, "Entry<EntryValid,STATE>", "seal")?.block);
    let mut seal_attrs = vec![];
    let mut rest = sealf.as_str();
    while let Some(p) = rest.find("self.attrs.insert(Attribute::") {
        let tail = &rest[p + "self.attrs.insert(Attribute::".len()..];
        let n: String = tail.chars().take_while(|c| c.is_alphanumeric()).collect();
        seal_attrs.push(attr(&n)?);
        rest = tail;
    }
    if count(&sealf, "self.attrs.") != seal_attrs.len() {
        return Err("seal: touches the attributes in a way the model does not know".into());
    }
    let tr = squash(&find_entry_fn(&entry, "Entry<EntryInvalid,EntryCommitted>", "to_recycled")?.block);
    let tv = squash(&find_entry_fn(&entry, "Entry<EntryInvalid,EntryCommitted>", "to_revived")?.block);
    let mut rec_adds = vec![];
    let mut rest = tr.as_str();
    while let Some(p) = rest.find("self.add_ava(Attribute::Class,EntryClass::") {
        let tail = &rest[p + "self.add_ava(Attribute::Class,EntryClass::".len()..];
        let n: String = tail.chars().take_while(|c| c.is_alphanumeric()).collect();
        rec_adds.push(cls(&n)?);
        rest = tail;
    }
    let mut rev_removes = vec![];
    let mut rest = tv.as_str();
    while let Some(p) = rest.find("self.remove_ava(Attribute::Class,&EntryClass::") {
        let tail = &rest[p + "self.remove_ava(Attribute::Class,&EntryClass::".len()..];
        let n: String = tail.chars().take_while(|c| c.is_alphanumeric()).collect();
        rev_removes.push(cls(&n)?);
        rest = tail;
    }
    let aai = squash(&find_fn(&entry, "add_ava_int")?.block);
    need(&aai, "add_ava_int", &["ifletSome(vs)=self.attrs.get_mut(&attr){letr=vs.insert_checked(value);", "r.unwrap_or(false)}else{", "self.attrs.insert(attr,vs);"])?;
    let rac = squash(&find_fn(&entry, "resolve_add_conflict")?.block);
    need(&rac, "resolve_add_conflict", &["cnf_ent.add_ava(Attribute::Class,EntryClass::Conflict.into());"])?;
    // ------------------------------------------------------------------ store paths
    let mut files = vec![];
    for d in ["server", "repl", "plugins", "idm"] {
        rs_files(std::path::Path::new(&format!("{repo}/server/lib/src/{d}")), &mut files)?;
    }
    let mut sites = StoreSites { cur: vec![], found: vec![] };
    for p in &files {
        let src = std::fs::read_to_string(p).map_err(|e| format!("{}: {e}", p.display()))?;
        let ast = syn::parse_file(&src).map_err(|e| format!("{}: {e}", p.display()))?;
        sites.visit_file(&ast);
    }
    let mut found = sites.found.clone();
    found.sort();
    let mut expected = vec![
        "batch_modify", "consumer_incremental_apply_entries", "consumer_refresh_create_entries", "create", "delete", "delete", "internal_apply_writable", "modify_apply", "purge_recycled", "revive_recycled",
    ];
    expected.sort();
    if found != expected {
        return Err(format!("backend write call sites changed: found {found:?}, expected {expected:?}"));
    }
    let get = |file: &str, f: &str| -> Result<FoundFn, String> { find_fn(&parse_file(repo, file)?, &format!("QueryServerWriteTransaction::{f}")) };
    let modify_pre = get("server/lib/src/server/modify.rs", "modify_pre_apply")?;
    let modify_apply = get("server/lib/src/server/modify.rs", "modify_apply")?;
    need(&squash(&modify_pre.block), "modify_pre_apply", &["Ok(Some(ModifyPartial{norm_cand,pre_candidates,me,}))"])?;
    need(&squash(&modify_apply.block), "modify_apply", &["letModifyPartial{norm_cand,pre_candidates,me,}=mp;"])?;
    let modify_fn = squash(&get("server/lib/src/server/modify.rs", "modify")?.block);
    need(&modify_fn, "modify", &["letmp=self.modify_pre_apply(me)?;", "self.modify_apply(mp)"])?;
    let apply_evs = events_of(&modify_apply, "modify_apply")?;
    let paths: Vec<(&str, &str, Vec<&str>, usize)> = vec![
        // name, file, functions (concatenated), expected number of filter/modlist validations
        ("create", "server/lib/src/server/create.rs", vec!["create"], 0),
        ("modify_pre_apply+modify_apply", "server/lib/src/server/modify.rs", vec!["modify_pre_apply", "modify_apply"], 0),
        ("internal_apply_writable", "server/lib/src/server/modify.rs", vec!["internal_apply_writable"], 0),
        ("batch_modify", "server/lib/src/server/batch_modify.rs", vec!["batch_modify"], 1),
        ("delete", "server/lib/src/server/delete.rs", vec!["delete"], 0),
        ("purge_recycled", "server/lib/src/server/recycle.rs", vec!["purge_recycled"], 0),
        ("revive_recycled", "server/lib/src/server/recycle.rs", vec!["revive_recycled"], 1),
        ("consumer_incremental_apply_entries", "server/lib/src/repl/consumer.rs", vec!["consumer_incremental_apply_entries"], 0),
        ("consumer_refresh_create_entries", "server/lib/src/repl/consumer.rs", vec!["consumer_refresh_create_entries"], 0),
    ];
    let mut pipelines = vec![];
    let mut n_steps = 0;
    for (name, file, fns, n_filter) in paths {
        let mut evs = vec![];
        let mut lets = vec![];
        for f in &fns {
            let ff = get(file, f)?;
            evs.extend(events_of(&ff, f)?);
            lets.extend(lets_of(&ff.block));
        }
        if name == "internal_apply_writable" {
            evs.insert(0, Ev::Mutate("caller".into()));
        }
        let nf = evs.iter().filter(|e| **e == Ev::FilterValidate).count();
        if nf != n_filter {
            return Err(format!("{name}: {nf} validations against self.get_schema() (filters / modlists), expected {n_filter}"));
        }
        evs.retain(|e| *e != Ev::FilterValidate);
        // splice modify_apply where it is called
        let mut flat = vec![];
        for e in evs {
            match e {
                Ev::CallModifyApply(var) => {
                    resolves_to_chain(&lets, &var, name, 0)?;
                    for a in &apply_evs {
                        flat.push(match a {
                            Ev::Store(_, _) => Ev::Store("modify_apply".into(), String::new()),
                            o => o.clone(),
                        });
                    }
                }
                Ev::Store(m, var) => {
                    if name == "modify_pre_apply+modify_apply" {
                        // bound by destructuring `mp`, which modify_pre_apply built from the chain
                        if var != "norm_cand" {
                            return Err(format!("{name}: stores `{var}`"));
                        }
                        let pre_lets = lets_of(&modify_pre.block);
                        resolves_to_chain(&pre_lets, "norm_cand", name, 0)?;
                    } else {
                        resolves_to_chain(&lets, &var, name, 0)?;
                    }
                    flat.push(Ev::Store(m, var));
                }
                o => flat.push(o),
            }
        }
        if !flat.iter().any(|e| matches!(e, Ev::Store(_, _))) {
            return Err(format!("{name}: no backend write found"));
        }
        n_steps += flat.len();
        let steps: Result<Vec<String>, String> = flat.iter().map(lean_step).collect();
        pipelines.push(format!("  (\"{name}\", [{}])", steps?.join(", ")));
    }
    // ------------------------------------------------------------------ emit
    let b = |x: bool| if x { "true" } else { "false" };
    let dots = |l: &[&str]| l.iter().map(|x| format!(".{x}")).collect::<Vec<_>>().join(", ");
    let body = format!(
        "namespace Kanidm.SchemaCheck.Gen\n\
/-- the `SchemaError` variants (and the two `Ok` exits) `Entry<EntryValid,_>::validate` can return -/\n\
inductive Ret where\n  | noClassFound | okConflict | invalidClass | supplementsNotSatisfied | excludesNotSatisfied\n  | corrupted | missingMustAttribute | phantomAttribute | avaCheck | invalidAttribute\n  | attributeNotValidForClass | okEnd\nderiving DecidableEq, Repr\n\
/-- entry classes the schema check itself names -/\n\
inductive Cls where\n  | conflict | recycled | extensibleObject | object | tombstone\nderiving DecidableEq, Repr\n\
/-- attributes the schema check itself names -/\n\
inductive AttrName where\n  | class_ | uuid | lastModifiedCid | createdAtCid | sourceUuid\nderiving DecidableEq, Repr\n\
/-- the attribute / class lists of a `SchemaClass` -/\n\
inductive Field where\n  | systemmust | must | systemmay | may | systemsupplements | supplements | systemexcludes | excludes\nderiving DecidableEq, Repr\n\
inductive Quant where\n  | any | all\nderiving DecidableEq, Repr\n\
/-- `Entry<EntryValid,_>::validate`: the exits in source order -/\n\
def validateReturns : List Ret := [{returns}]\n\
/-- `if self.attribute_equality(Attribute::Class, &EntryClass::X.into()) {{ return Ok(()) }}` -/\n\
def exemptClass : Cls := .{exempt}\n\
/-- `let recycled = self.attribute_equality(Attribute::Class, &EntryClass::X.into())` -/\n\
def recycledFlagClass : Cls := .{recycled}\n\
/-- `let extensible = self.attribute_equality(Attribute::Class, &EntryClass::X.into())` -/\n\
def extensibleFlagClass : Cls := .{extensible}\n\
/-- `if !recycled {{ return Err(SchemaError::MissingMustAttribute(missing_must)) }}` -/\n\
def missingMustSoftenedByRecycled : Bool := {softened}\n\
/-- `if supplements_classes.is_empty() {{ true }} else {{ supplements_classes.iter().any(..contains..) }}` -/\n\
def supplementsEmptyOk : Bool := {empty_ok}\n\
def supplementsQuant : Quant := .{quant}\n\
/-- the `flat_map` chains over the entry's classes -/\n\
def supplementsFields : List Field := [{supp}]\n\
def excludesFields : List Field := [{excl}]\n\
def mustFields : List Field := [{must}]\n\
def mayFields : List Field := [{may}]\n\
/-- extensible arm: `if a_schema.phantom {{ Err(PhantomAttribute) }} else {{ a_schema.validate_ava(..) }}` -/\n\
def extensibleRejectsPhantom : Bool := {phantom}\n\
/-- `SchemaAttribute::validate_ava`: `{single_src}` -/\n\
def singleValueViolated (multivalue : Bool) (len : Nat) : Bool := {single}\n\
/-- `let valid = self.syntax == ava.syntax(); if valid && ava.validate(self) {{ Ok(()) }}` -/\n\
def avaRequiresSyntaxEq : Bool := {syn_eq}\n\
def avaRequiresValuesValid : Bool := {vals_valid}\n\
/-- `Entry<EntryInvalid,_>::validate` and `Entry<EntryRefresh,_>::validate`: `uuid` must be a single-valued uuid set, else `MissingMustAttribute([uuid])`, before the schema check -/\n\
def invalidChecksUuidFirst : Bool := {u0}\n\
def refreshChecksUuidFirst : Bool := {u1}\n\
/-- `validate_repl`: on `Err` the classes added and the attribute that receives the entry's own uuid -/\n\
def replFailClasses : List Cls := [{repl_classes}]\n\
def replFailAttr : AttrName := .{repl_attr}\n\
/-- `seal`: attributes (re)written after validation -/\n\
def sealAttrs : List AttrName := [{seal_attrs}]\n\
/-- `to_recycled` adds, `to_revived` removes -/\n\
def toRecycledAdds : List Cls := [{rec_adds}]\n\
def toRevivedRemoves : List Cls := [{rev_removes}]\n\
/-- one step of a store path (evaluation order inside the function that calls the backend) -/\n\
inductive Step where\n\
  /-- something that may rewrite the candidates (`&mut` plugin hook, modlist, state transition) -/\n\
  | mutate (what : String)\n\
  /-- `.validate(&self.schema)` on the candidate, `?`-propagated -/\n\
  | validate\n\
  /-- `.validate_repl(&self.schema)`: never fails, failing entries become conflicts -/\n\
  | validateRepl\n\
  | sealing\n\
  /-- backend write of the variable bound to the validate→seal chain (def-use checked by the translator) -/\n\
  | store (method : String)\n\
  /-- backend write of entries built by `resolve_add_conflict` (conflict copies, not validated) -/\n\
  | storeConflictCopies\n\
  /-- plugin hook that only reads the candidates (`&`), may reject -/\n\
  | check (what : String)\n\
  /-- plugin hook after the store; writes only through other store paths -/\n\
  | post (what : String)\n\
deriving DecidableEq, Repr\n\
/-- every function outside `be/` that calls a backend write, with the steps that lead to it -/\n\
def pipelines : List (String × List Step) := [\n{pipelines}]\n\
end Kanidm.SchemaCheck.Gen\n",
        returns = dots(&ex.0),
        exempt = exempt,
        recycled = recycled,
        extensible = extensible,
        softened = b(softened),
        empty_ok = b(empty_ok),
        quant = quant,
        supp = dots(&supp_fields),
        excl = dots(&excl_fields),
        must = dots(&must_fields),
        may = dots(&may_fields),
        phantom = b(phantom),
        single_src = conds[0].to_token_stream().to_string(),
        single = single,
        syn_eq = b(syn_eq),
        vals_valid = b(vals_valid),
        u0 = b(uuid_first[0]),
        u1 = b(uuid_first[1]),
        repl_classes = dots(&repl_classes),
        repl_attr = repl_attr,
        seal_attrs = dots(&seal_attrs),
        rec_adds = dots(&rec_adds),
        rev_removes = dots(&rev_removes),
        pipelines = pipelines.join(",\n"),
    );
    write_generated(
        out,
        "SchemaCheckOps",
        "server/lib/src/entry.rs + server/lib/src/schema.rs + server/lib/src/server/{create,modify,batch_modify,delete,recycle}.rs + server/lib/src/repl/consumer.rs",
        &body,
    )?;
    Ok(format!(
        "SchemaCheckOps: {} exits, exempt {exempt}, must softened by {recycled}: {softened}, supplements {quant}, single-value `{single}`, {} store paths / {n_steps} steps",
        ex.0.len(),
        pipelines.len()
    ))
}
