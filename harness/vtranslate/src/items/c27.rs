//! C27 translator item `authsession-tables`: the table-like parts of the authentication
//! session state machine, re-read from the source on every run:
//!  * `CredHandler::can_proceed`  — (handler, mech) pairs of the `true` arm;
//!  * `CredHandler::allows_mech`  — handler ↦ mech;
//!  * `CredHandler::validate` dispatch + every `validate_*`: the `AuthCredential::_` variants
//!    its `match cred` arms name, in source order (= the factors, in the order required);
//!  * `AuthSession::new`          — the `CredHandler::build_from_*` calls in source order, each
//!    flagged when it sits inside `if handlers.is_empty()`;
//!  * `Account::check_within_valid_time` — the two comparisons.
use super::vars;
use crate::util::*;
use quote::ToTokens;
use syn::visit::Visit;

pub fn run(item: &str, repo: &str, out: &str) -> Option<Result<String, String>> {
    match item {
        "authsession-tables" => Some(tables(repo, out)),
        _ => None,
    }
}

const HKINDS: [&str; 8] = [
    "Anonymous", "Password", "PasswordTotp", "PasswordBackupCode", "PasswordSecurityKey",
    "Passkey", "AttestedPasskey", "OAuth2Trust",
];
const MECHS: [&str; 7] = [
    "Anonymous", "Password", "PasswordBackupCode", "PasswordTotp", "PasswordSecurityKey",
    "Passkey", "OAuth2Trust",
];
const CREDS: [&str; 9] = [
    "Anonymous", "Password", "Totp", "SecurityKey", "BackupCode", "Passkey",
    "OAuth2AuthorisationResponse", "OAuth2AccessTokenResponse",
    "OAuth2AccessTokenIntrospectResponse",
];

fn lc(v: &str) -> String {
    let mut c = v.chars();
    match c.next() {
        Some(f) => format!(".{}{}", f.to_lowercase(), c.as_str()),
        None => String::new(),
    }
}

fn known(v: &str, set: &[&str], what: &str) -> Result<String, String> {
    if set.contains(&v) {
        Ok(lc(v))
    } else {
        Err(format!("unknown {what} variant `{v}` (the Lean enumeration must be extended)"))
    }
}

/// `Enum::Variant` (any pattern/expression form) ↦ `Variant` if the enum name matches.
fn variant_of_path(p: &syn::Path, enum_name: &str) -> Option<String> {
    let segs: Vec<String> = p.segments.iter().map(|s| s.ident.to_string()).collect();
    if segs.len() >= 2 && segs[segs.len() - 2] == enum_name {
        Some(segs[segs.len() - 1].clone())
    } else {
        None
    }
}

fn variant_of_pat(p: &syn::Pat, enum_name: &str) -> Option<String> {
    match p {
        syn::Pat::Struct(s) => variant_of_path(&s.path, enum_name),
        syn::Pat::TupleStruct(s) => variant_of_path(&s.path, enum_name),
        syn::Pat::Path(s) => variant_of_path(&s.path, enum_name),
        syn::Pat::Ident(_) => None,
        syn::Pat::Reference(r) => variant_of_pat(&r.pat, enum_name),
        syn::Pat::Paren(r) => variant_of_pat(&r.pat, enum_name),
        _ => None,
    }
}

/// The single top-level `match` of a function body (last statement / expression).
fn body_match(f: &FoundFn, name: &str) -> Result<syn::ExprMatch, String> {
    for st in f.block.stmts.iter().rev() {
        if let syn::Stmt::Expr(syn::Expr::Match(m), _) = st {
            return Ok(m.clone());
        }
    }
    Err(format!("{name}: body is not a single `match`"))
}

fn is_wild(p: &syn::Pat) -> bool {
    match p {
        syn::Pat::Wild(_) => true,
        syn::Pat::Tuple(t) => t.elems.iter().all(is_wild),
        _ => false,
    }
}

fn can_proceed(ast: &syn::File) -> Result<Vec<(String, String)>, String> {
    let f = find_fn(ast, "CredHandler::can_proceed")?;
    let m = body_match(&f, "can_proceed")?;
    if m.arms.len() != 2 {
        return Err(format!("can_proceed: expected 2 arms (pairs => true, wildcard => false), found {}", m.arms.len()));
    }
    let body = |a: &syn::Arm| a.body.to_token_stream().to_string();
    if body(&m.arms[0]) != "true" || body(&m.arms[1]) != "false" || !is_wild(&m.arms[1].pat) {
        return Err("can_proceed: arms are not `<pairs> => true, (_, _) => false`".into());
    }
    if m.arms[0].guard.is_some() {
        return Err("can_proceed: guard on the `true` arm".into());
    }
    let cases: Vec<&syn::Pat> = match &m.arms[0].pat {
        syn::Pat::Or(o) => o.cases.iter().collect(),
        p => vec![p],
    };
    let mut pairs = vec![];
    for c in cases {
        let syn::Pat::Tuple(t) = c else {
            return Err(format!("can_proceed: unexpected pattern `{}`", c.to_token_stream()));
        };
        if t.elems.len() != 2 {
            return Err("can_proceed: pattern is not a pair".into());
        }
        let h = variant_of_pat(&t.elems[0], "CredHandler")
            .ok_or_else(|| format!("can_proceed: `{}` is not a CredHandler variant", t.elems[0].to_token_stream()))?;
        let mm = variant_of_pat(&t.elems[1], "AuthMech")
            .ok_or_else(|| format!("can_proceed: `{}` is not an AuthMech variant", t.elems[1].to_token_stream()))?;
        pairs.push((known(&h, &HKINDS, "CredHandler")?, known(&mm, &MECHS, "AuthMech")?));
    }
    Ok(pairs)
}

fn allows_mech(ast: &syn::File) -> Result<Vec<(String, String)>, String> {
    let f = find_fn(ast, "CredHandler::allows_mech")?;
    let m = body_match(&f, "allows_mech")?;
    let mut rows = vec![];
    for a in &m.arms {
        let h = variant_of_pat(&a.pat, "CredHandler")
            .ok_or_else(|| format!("allows_mech: unexpected pattern `{}`", a.pat.to_token_stream()))?;
        let syn::Expr::Path(p) = &*a.body else {
            return Err(format!("allows_mech: arm body `{}` is not a variant", a.body.to_token_stream()));
        };
        let mm = variant_of_path(&p.path, "AuthMech").ok_or("allows_mech: arm body is not an AuthMech")?;
        rows.push((known(&h, &HKINDS, "CredHandler")?, known(&mm, &MECHS, "AuthMech")?));
    }
    exhaustive(&rows, "allows_mech")?;
    Ok(rows)
}

fn exhaustive(rows: &[(String, String)], what: &str) -> Result<(), String> {
    for k in HKINDS {
        if rows.iter().filter(|(h, _)| *h == lc(k)).count() != 1 {
            return Err(format!("{what}: CredHandler::{k} does not have exactly one arm"));
        }
    }
    if rows.len() != HKINDS.len() {
        return Err(format!("{what}: {} arms for {} variants", rows.len(), HKINDS.len()));
    }
    Ok(())
}

/// `AuthCredential::V` patterns of a function body in source order.
fn cred_patterns(f: &FoundFn) -> Vec<String> {
    struct V(Vec<String>);
    impl<'ast> Visit<'ast> for V {
        fn visit_pat(&mut self, p: &'ast syn::Pat) {
            if let Some(v) = variant_of_pat(p, "AuthCredential") {
                self.0.push(v);
            }
            syn::visit::visit_pat(self, p);
        }
    }
    let mut v = V(vec![]);
    v.visit_block(&f.block);
    v.0
}

fn accepted_creds(ast: &syn::File) -> Result<Vec<(String, Vec<String>)>, String> {
    let f = find_fn(ast, "CredHandler::validate")?;
    let m = body_match(&f, "validate")?;
    let mut rows = vec![];
    for a in &m.arms {
        let h = variant_of_pat(&a.pat, "CredHandler")
            .ok_or_else(|| format!("validate: unexpected pattern `{}`", a.pat.to_token_stream()))?;
        let creds = match &*a.body {
            syn::Expr::Call(c) => {
                let fname = path_string(&c.func).unwrap_or_default();
                let Some(name) = fname.strip_prefix("Self::") else {
                    return Err(format!("validate: arm of {h} calls `{fname}`, expected `Self::validate_*`"));
                };
                if !name.starts_with("validate_") {
                    return Err(format!("validate: arm of {h} calls `{fname}`"));
                }
                let vf = find_fn(ast, &format!("CredHandler::{name}"))?;
                let mut out = vec![];
                for v in cred_patterns(&vf) {
                    out.push(known(&v, &CREDS, "AuthCredential")?);
                }
                if out.is_empty() {
                    return Err(format!("{name}: no `AuthCredential::_` pattern found"));
                }
                out
            }
            // the OAuth2 client handler has its own state machine (not modelled)
            syn::Expr::MethodCall(mc) if h == "OAuth2Trust" && mc.method == "validate" => vec![],
            other => {
                return Err(format!("validate: unrecognised arm body for {h}: `{}`", other.to_token_stream()))
            }
        };
        rows.push((known(&h, &HKINDS, "CredHandler")?, creds));
    }
    let flat: Vec<(String, String)> = rows.iter().map(|(h, _)| (h.clone(), String::new())).collect();
    exhaustive(&flat, "validate")?;
    Ok(rows)
}

fn builders(ast: &syn::File) -> Result<Vec<(String, bool)>, String> {
    let f = find_fn(ast, "AuthSession::new")?;
    struct V {
        guard_depth: usize,
        out: Vec<(String, bool)>,
    }
    impl<'ast> Visit<'ast> for V {
        fn visit_expr_if(&mut self, i: &'ast syn::ExprIf) {
            let cond = i.cond.to_token_stream().to_string().replace(' ', "");
            self.visit_expr(&i.cond);
            let guarded = cond == "handlers.is_empty()";
            if guarded {
                self.guard_depth += 1;
            }
            self.visit_block(&i.then_branch);
            if guarded {
                self.guard_depth -= 1;
            }
            if let Some((_, e)) = &i.else_branch {
                self.visit_expr(e);
            }
        }
        fn visit_expr_call(&mut self, c: &'ast syn::ExprCall) {
            if let Some(p) = path_string(&c.func) {
                if let Some(name) = p.strip_prefix("CredHandler::build_from_") {
                    self.out.push((name.to_string(), self.guard_depth > 0));
                }
            }
            syn::visit::visit_expr_call(self, c);
        }
    }
    let mut v = V { guard_depth: 0, out: vec![] };
    v.visit_block(&f.block);
    let mut rows = vec![];
    for (name, g) in v.out {
        let b = match name.as_str() {
            "password_totp" => ".passwordTotp",
            "password_backup_code" => ".passwordBackupCode",
            "password_security_key" => ".passwordSecurityKey",
            "password_only" => ".passwordOnly",
            "set_attested_pk" => ".setAttestedPk",
            "set_passkey" => ".setPasskey",
            other => return Err(format!("AuthSession::new calls unknown builder build_from_{other}")),
        };
        rows.push((b.to_string(), g));
    }
    if rows.is_empty() {
        return Err("AuthSession::new: no CredHandler::build_from_* call found".into());
    }
    Ok(rows)
}

fn validity(repo: &str) -> Result<Vec<(String, String)>, String> {
    let ast = parse_file(repo, "server/lib/src/idm/account.rs")?;
    let f = find_fn(&ast, "Account::check_within_valid_time")?;
    struct V(Vec<syn::ExprBinary>);
    impl<'ast> Visit<'ast> for V {
        fn visit_expr_binary(&mut self, b: &'ast syn::ExprBinary) {
            use syn::BinOp::*;
            if matches!(b.op, Lt(_) | Le(_) | Gt(_) | Ge(_) | Eq(_) | Ne(_)) {
                self.0.push(b.clone());
            }
            syn::visit::visit_expr_binary(self, b);
        }
    }
    let mut v = V(vec![]);
    v.visit_block(&f.block);
    if v.0.len() != 2 {
        return Err(format!("check_within_valid_time: expected 2 comparisons, found {}", v.0.len()));
    }
    let vs = vars(&[("vft", "vft"), ("cot", "cot"), ("ext", "ext")]);
    let mut out = vec![];
    for b in &v.0 {
        let e = syn::Expr::Binary(b.clone());
        out.push((e.to_token_stream().to_string(), lean_expr(&e, &vs)?));
    }
    let mentions = |s: &str, a: &str| s.split(|c: char| !c.is_alphanumeric()).any(|t| t == a);
    if !(mentions(&out[0].0, "vft") && mentions(&out[0].0, "cot")) {
        return Err(format!("check_within_valid_time: first comparison `{}` is not between vft and cot", out[0].0));
    }
    if !(mentions(&out[1].0, "ext") && mentions(&out[1].0, "cot")) {
        return Err(format!("check_within_valid_time: second comparison `{}` is not between cot and ext", out[1].0));
    }
    Ok(out)
}

fn tables(repo: &str, out: &str) -> Result<String, String> {
    let rel = "server/lib/src/idm/authsession/mod.rs";
    let ast = parse_file(repo, rel)?;
    let cp = can_proceed(&ast)?;
    let am = allows_mech(&ast)?;
    let ac = accepted_creds(&ast)?;
    let bs = builders(&ast)?;
    let va = validity(repo)?;

    let mut b = String::new();
    b += "namespace Kanidm.Gen.AuthSession\nopen Kanidm.AuthSession\n";
    b += "/-- `CredHandler::can_proceed`: the (handler, mech) pairs of the `true` arm. -/\n";
    b += &format!(
        "def canProceedPairs : List (HKind × Mech) := [{}]\n",
        cp.iter().map(|(h, m)| format!("({h}, {m})")).collect::<Vec<_>>().join(", ")
    );
    b += "/-- `CredHandler::allows_mech`. -/\ndef allowsMech : HKind → Mech\n";
    for (h, m) in &am {
        b += &format!("  | {h} => {m}\n");
    }
    b += "/-- `CredHandler::validate` dispatch + the `AuthCredential::_` patterns of each `validate_*` in source order. -/\n";
    b += "def acceptedCreds : HKind → List CredKind\n";
    for (h, cs) in &ac {
        b += &format!("  | {h} => [{}]\n", cs.join(", "));
    }
    b += "/-- `AuthSession::new`: `CredHandler::build_from_*` calls in source order; flag = inside `if handlers.is_empty()`. -/\n";
    b += &format!(
        "def builders : List (Builder × Bool) := [{}]\n",
        bs.iter().map(|(n, g)| format!("({n}, {g})")).collect::<Vec<_>>().join(", ")
    );
    b += &format!("/-- `Account::check_within_valid_time`: `{}` -/\n", va[0].0);
    b += &format!("def validFromOk (vft cot ext : Nat) : Bool := {}\n", va[0].1);
    b += &format!("/-- `Account::check_within_valid_time`: `{}` -/\n", va[1].0);
    b += &format!("def expireOk (vft cot ext : Nat) : Bool := {}\n", va[1].1);
    b += "end Kanidm.Gen.AuthSession\n";

    // own writer: the generated module imports the enumerations, and `import` must come first
    let path = format!("{out}/AuthSessionTables.lean");
    let text = format!(
        "-- GENERATED by vtranslate from {rel}, server/lib/src/idm/account.rs. Do not edit: rewritten on every check run.\nimport KanidmModel.AuthSessionTypes\nset_option linter.unusedVariables false\n{b}"
    );
    if std::fs::read_to_string(&path).map(|old| old == text).unwrap_or(false) {
        return Ok(format!("AuthSessionTables: unchanged ({} pairs, {} builders)", cp.len(), bs.len()));
    }
    std::fs::write(&path, text).map_err(|e| format!("{path}: {e}"))?;
    Ok(format!("AuthSessionTables: {} pairs, {} builders", cp.len(), bs.len()))
}
