//! C13 translator item `backup-ops`: the variants of `enum DbBackup`, which variant and which sources
//! `BackendTransaction::backup` writes, every `match` arm of `BackendWriteTransaction::restore` (the
//! idlayer writes and the `(entries, repl_meta, version)` tuple), the version comparison, the order of the
//! phases of `restore`, `danger_delete_all_db_content`, `commit`, of the two statements of
//! `write_db_ruv`, the shapes of `ruv.rs` `restore` / `rebuild` / `to_db_backup_ruv`, and the
//! `restore(..).and_then(commit)` of `restore_server_core`. Any other shape is an error.
use crate::util::*;
use quote::ToTokens;
use syn::visit::Visit;
use syn::{Expr, Pat, Stmt};

pub fn run(item: &str, repo: &str, out: &str) -> Option<Result<String, String>> {
    match item {
        "backup-ops" => Some(backup_ops(repo, out)),
        _ => None,
    }
}

fn toks<T: ToTokens>(t: &T) -> String {
    t.to_token_stream().to_string()
}

fn lean_field(rust: &str) -> Result<&'static str, String> {
    Ok(match rust {
        "version" => ".version",
        "db_s_uuid" => ".sUuid",
        "db_d_uuid" => ".dUuid",
        "db_ts_max" => ".tsMax",
        "keyhandles" => ".keys",
        "repl_meta" => ".replMeta",
        "entries" => ".entries",
        o => return Err(format!("unknown DbBackup field `{o}`")),
    })
}

fn field_type_ok(rust: &str, ty: &str) -> bool {
    matches!(
        (rust, ty),
        ("version", "String")
            | ("db_s_uuid", "Uuid")
            | ("db_d_uuid", "Uuid")
            | ("db_ts_max", "Duration")
            | ("keyhandles", "BTreeMap < KeyHandleId , KeyHandle >")
            | ("repl_meta", "DbReplMeta")
            | ("entries", "Vec < DbEntry >")
    )
}

fn variant_no(name: &str) -> Result<u32, String> {
    name.strip_prefix('V')
        .and_then(|n| n.parse().ok())
        .ok_or_else(|| format!("DbBackup variant `{name}` is not V<n>"))
}

/// (variant number, rust field names, is tuple variant) in declaration order.
fn parse_variants(repo: &str) -> Result<Vec<(u32, Vec<String>, bool)>, String> {
    let ast = parse_file(repo, "server/lib/src/be/dbentry.rs")?;
    for it in &ast.items {
        if let syn::Item::Enum(e) = it {
            if e.ident != "DbBackup" {
                continue;
            }
            let attrs: String = e.attrs.iter().map(|a| toks(&a.meta)).collect::<Vec<_>>().join(" ");
            if !attrs.contains("serde (untagged)") {
                return Err(format!("enum DbBackup is no longer `#[serde(untagged)]` (attributes: {attrs})"));
            }
            let mut out = vec![];
            for v in &e.variants {
                if !v.attrs.is_empty() {
                    return Err(format!("DbBackup::{} carries attributes: the field model no longer applies", v.ident));
                }
                let n = variant_no(&v.ident.to_string())?;
                match &v.fields {
                    syn::Fields::Named(f) => {
                        let mut names = vec![];
                        for fld in &f.named {
                            if !fld.attrs.is_empty() {
                                return Err(format!("DbBackup::{} field with attributes `{}`", v.ident, toks(fld)));
                            }
                            let name = fld.ident.as_ref().map(|i| i.to_string()).unwrap_or_default();
                            lean_field(&name)?;
                            if !field_type_ok(&name, &toks(&fld.ty)) {
                                return Err(format!("DbBackup::{}.{name} has unexpected type `{}`", v.ident, toks(&fld.ty)));
                            }
                            names.push(name);
                        }
                        out.push((n, names, false));
                    }
                    syn::Fields::Unnamed(f) => {
                        let tys: Vec<String> = f.unnamed.iter().map(|x| toks(&x.ty)).collect();
                        if tys != ["Vec < DbEntry >"] {
                            return Err(format!("DbBackup::{} tuple fields {tys:?}", v.ident));
                        }
                        out.push((n, vec!["entries".to_string()], true));
                    }
                    syn::Fields::Unit => return Err(format!("DbBackup::{} is a unit variant", v.ident)),
                }
            }
            return Ok(out);
        }
    }
    Err("enum DbBackup not found".into())
}

/// the initialisers of every `let <name> = …;` (top level of the block), in order
fn let_inits(block: &syn::Block, name: &str) -> Vec<String> {
    let mut found = vec![];
    for s in &block.stmts {
        if let Stmt::Local(l) = s {
            let pat = match &l.pat {
                Pat::Type(t) => toks(&t.pat),
                p => toks(p),
            };
            if pat == name || pat == format!("mut {name}") {
                found.push(l.init.as_ref().map(|i| toks(&i.expr)).unwrap_or_default());
            }
        }
    }
    found
}

/// the initialiser of the only `let <name> = …;` (top level of the block)
fn let_init(block: &syn::Block, name: &str) -> Result<String, String> {
    let mut found = vec![];
    for s in &block.stmts {
        if let Stmt::Local(l) = s {
            let pat = match &l.pat {
                Pat::Type(t) => toks(&t.pat),
                p => toks(p),
            };
            if pat == name || pat == format!("mut {name}") {
                found.push(l.init.as_ref().map(|i| toks(&i.expr)).unwrap_or_default());
            }
        }
    }
    match found.len() {
        1 => Ok(found.remove(0)),
        n => Err(format!("expected exactly one `let {name} = …`, found {n}")),
    }
}

fn squash(s: &str) -> String {
    s.split_whitespace().collect::<Vec<_>>().join(" ")
}

struct FindStruct {
    hits: Vec<syn::ExprStruct>,
}
impl<'ast> Visit<'ast> for FindStruct {
    fn visit_expr_struct(&mut self, e: &'ast syn::ExprStruct) {
        if toks(&e.path).starts_with("DbBackup ::") {
            self.hits.push(e.clone());
        }
        syn::visit::visit_expr_struct(self, e);
    }
}

/// `backup`: (variant, [(rust field, Lean source)], required sources)
fn parse_backup(repo: &str) -> Result<(u32, Vec<(String, &'static str)>, Vec<&'static str>), String> {
    let ast = parse_file(repo, "server/lib/src/be/mod.rs")?;
    let f = find_fn(&ast, "BackendTransaction::backup")?;
    let mut v = FindStruct { hits: vec![] };
    v.visit_block(&f.block);
    if v.hits.len() != 1 {
        return Err(format!("backup: expected one `DbBackup::V.. {{ .. }}` literal, found {}", v.hits.len()));
    }
    let lit = &v.hits[0];
    if lit.rest.is_some() {
        return Err("backup: struct literal with `..rest`".into());
    }
    let variant = variant_no(&lit.path.segments.last().map(|s| s.ident.to_string()).unwrap_or_default())?;
    // the expected provenance of every local the literal uses
    let expect: &[(&str, &str, &'static str, bool)] = &[
        ("db_s_uuid", "idlayer . get_db_s_uuid () . and_then (| u | u . ok_or (OperationError :: InvalidDbState)) ?", ".dbSUuid", true),
        ("db_d_uuid", "idlayer . get_db_d_uuid () . and_then (| u | u . ok_or (OperationError :: InvalidDbState)) ?", ".dbDUuid", true),
        ("db_ts_max", "idlayer . get_db_ts_max () . and_then (| u | u . ok_or (OperationError :: InvalidDbState)) ?", ".dbTsMax", true),
        ("keyhandles", "idlayer . get_key_handles () ?", ".keyHandles", false),
        ("repl_meta", "self . get_ruv () . to_db_backup_ruv ()", ".ruvBackup", false),
    ];
    let mut fields = vec![];
    let mut required = vec![];
    for fv in &lit.fields {
        let name = match &fv.member {
            syn::Member::Named(i) => i.to_string(),
            _ => return Err("backup: unnamed member".into()),
        };
        lean_field(&name)?;
        let value = squash(&toks(&fv.expr));
        if name == "version" {
            if value != "env ! (\"KANIDM_PKG_SERIES\") . to_string ()" {
                return Err(format!("backup: version is written from `{value}`"));
            }
            fields.push((name, ".pkgSeries"));
            continue;
        }
        if value != name {
            return Err(format!("backup: field `{name}` is written from `{value}`, expected the local of the same name"));
        }
        if name == "entries" {
            // entries? of the parsed raw rows of AllIds
            // two `let entries`: the Result of parsing every raw row, and its `?`
            let es: Vec<String> = let_inits(&f.block, "entries").iter().map(|x| squash(x)).collect();
            if es.len() != 2
                || !es[0].starts_with("raw_entries . iter () . map (| id_ent | { serde_json :: from_slice (id_ent . data . as_slice ())")
                || !es[0].ends_with(". collect ()")
                || es[1] != "entries ?"
            {
                return Err(format!("backup: entries = {es:?}"));
            }
            let idl = squash(&let_init(&f.block, "idl")?);
            let raw = squash(&let_init(&f.block, "raw_entries")?);
            if idl != "IdList :: AllIds" {
                return Err(format!("backup: idl = `{idl}`"));
            }
            if raw != "idlayer . get_identry_raw (& idl) ?" {
                return Err(format!("backup: raw_entries = `{raw}`"));
            }
            fields.push((name, ".rawEntries"));
            continue;
        }
        let (_, want, src, req) = expect
            .iter()
            .find(|(n, _, _, _)| *n == name)
            .ok_or_else(|| format!("backup: no expected provenance for `{name}`"))?;
        let got = squash(&let_init(&f.block, &name)?);
        if got != *want {
            return Err(format!("backup: `let {name} = {got}` (expected `{want}`)"));
        }
        fields.push((name, *src));
        if *req {
            required.push(*src);
        }
    }
    Ok((variant, fields, required))
}

struct Arm {
    variant: u32,
    writes: Vec<(String, &'static str)>,
    entries: Option<String>,
    repl: Option<String>,
    version: Option<String>,
}

fn opt_ident(e: &Expr) -> Result<Option<String>, String> {
    let s = squash(&toks(e));
    if s == "None" {
        return Ok(None);
    }
    if let Some(inner) = s.strip_prefix("Some (").and_then(|x| x.strip_suffix(")")) {
        return Ok(Some(inner.trim().to_string()));
    }
    Err(format!("tuple element `{s}` is neither None nor Some(ident)"))
}

struct RestoreInfo {
    arms: Vec<Arm>,
    version_op: &'static str,
    no_version_refused: bool,
    no_repl_continues: bool,
    first_id: i128,
    steps: Vec<&'static str>,
}

fn parse_restore(repo: &str, variants: &[(u32, Vec<String>, bool)]) -> Result<RestoreInfo, String> {
    let ast = parse_file(repo, "server/lib/src/be/mod.rs")?;
    let f = find_fn(&ast, "BackendWriteTransaction::restore")?;
    let mut steps: Vec<&'static str> = vec![];
    let mut arms: Vec<Arm> = vec![];
    let mut version_op = "";
    let mut no_version_refused = false;
    let mut no_repl_continues = false;
    let mut first_id: Option<i128> = None;
    let mut id_init: Option<i128> = None;
    let n = f.block.stmts.len();
    for (i, st) in f.block.stmts.iter().enumerate() {
        match st {
            Stmt::Macro(_) => {}
            Stmt::Local(l) => {
                let pat = match &l.pat {
                    Pat::Type(t) => squash(&toks(&t.pat)),
                    p => squash(&toks(p)),
                };
                let init = l.init.as_ref().map(|x| &*x.expr);
                let init_s = init.map(|e| squash(&toks(e))).unwrap_or_default();
                match pat.as_str() {
                    "dbbak_option" => {
                        if !(init_s.starts_with("match compression") && init_s.contains("serde_json :: from_reader (input)") && init_s.contains("GzDecoder :: new (input)")) {
                            return Err(format!("restore: dbbak_option = `{init_s}`"));
                        }
                        steps.push(".parse");
                    }
                    "dbbak" => {
                        if !(init_s.starts_with("dbbak_option . map_err") && init_s.ends_with("?") && init_s.contains("OperationError :: SerdeJsonError")) {
                            return Err(format!("restore: dbbak = `{init_s}`"));
                        }
                    }
                    "idlayer" => {
                        if init_s != "self . get_idlayer ()" {
                            return Err(format!("restore: idlayer = `{init_s}`"));
                        }
                    }
                    "(dbentries , repl_meta , maybe_version)" => {
                        let m = match init {
                            Some(Expr::Match(m)) if squash(&toks(&m.expr)) == "dbbak" => m,
                            _ => return Err(format!("restore: the tuple is not `match dbbak {{..}}`: `{init_s}`")),
                        };
                        for a in &m.arms {
                            if a.guard.is_some() {
                                return Err("restore: match arm with a guard".into());
                            }
                            arms.push(parse_arm(a, variants)?);
                        }
                        steps.push(".arms");
                    }
                    "mut id_max" => {
                        id_init = Some(eval_int(init.ok_or("id_max without initialiser")?, &|_| None)?);
                    }
                    "identries" => {
                        // dbentries.iter().map(|e| { id_max += 1; …; Ok(IdRawEntry { id: id_max, data }) }).collect()
                        if !init_s.starts_with("dbentries . iter () . map (| e | { id_max += 1 ;") || !init_s.contains("Ok (IdRawEntry { id : id_max , data })") {
                            return Err(format!("restore: identries = `{init_s}`"));
                        }
                        if !init_s.contains("serde_json :: to_vec (& e)") {
                            return Err(format!("restore: identries does not serialise the entry itself: `{init_s}`"));
                        }
                        first_id = Some(id_init.ok_or("restore: id_max not initialised before identries")? + 1);
                    }
                    "vr" => {
                        if init_s != "self . verify ()" {
                            return Err(format!("restore: vr = `{init_s}`"));
                        }
                        steps.push(".verify");
                    }
                    o => return Err(format!("restore: unrecognised `let {o} = {init_s}`")),
                }
            }
            Stmt::Expr(e, semi) => {
                let s = squash(&toks(e));
                if s.starts_with("self . danger_delete_all_db_content ()") && s.ends_with("?") {
                    steps.push(".deleteAll");
                } else if let Expr::If(ifx) = e {
                    let cond = squash(&toks(&ifx.cond));
                    if cond == "let Some (version) = maybe_version" {
                        // inner: if version <op> env!(..) { …; return Err(DB0001) }
                        let inner = match ifx.then_branch.stmts.as_slice() {
                            [Stmt::Expr(Expr::If(i), _)] => i,
                            _ => return Err("restore: version block is not a single `if`".into()),
                        };
                        if inner.else_branch.is_some() {
                            return Err("restore: version comparison has an else branch".into());
                        }
                        let (op, l, r) = match &*inner.cond {
                            Expr::Binary(b) => (
                                match b.op {
                                    syn::BinOp::Ne(_) => "!=",
                                    syn::BinOp::Eq(_) => "==",
                                    _ => return Err(format!("restore: version comparison `{}`", toks(&inner.cond))),
                                },
                                squash(&toks(&b.left)),
                                squash(&toks(&b.right)),
                            ),
                            _ => return Err(format!("restore: version condition `{}`", toks(&inner.cond))),
                        };
                        if l != "version" || r != "env ! (\"KANIDM_PKG_SERIES\")" {
                            return Err(format!("restore: version comparison operands `{l}` / `{r}`"));
                        }
                        let body = squash(&toks(&inner.then_branch));
                        if !body.contains("return Err (OperationError :: DB0001MismatchedRestoreVersion)") {
                            return Err(format!("restore: the version branch does not return DB0001: `{body}`"));
                        }
                        version_op = op;
                        let else_s = ifx.else_branch.as_ref().map(|(_, e)| squash(&toks(e))).unwrap_or_default();
                        no_version_refused = else_s.contains("return Err (OperationError :: DB0002MismatchedRestoreVersion)");
                        steps.push(".versionCheck");
                    } else if cond == "vr . is_empty ()" && i == n - 1 && semi.is_none() {
                        let t = squash(&toks(&ifx.then_branch));
                        let el = ifx.else_branch.as_ref().map(|(_, e)| squash(&toks(e))).unwrap_or_default();
                        if t != "{ Ok (()) }" || !el.contains("Err (OperationError :: ConsistencyError") {
                            return Err(format!("restore: result `{t}` / `{el}`"));
                        }
                    } else {
                        return Err(format!("restore: unrecognised `if {cond}`"));
                    }
                } else if let Expr::Match(m) = e {
                    if squash(&toks(&m.expr)) != "repl_meta" {
                        return Err(format!("restore: unrecognised match on `{}`", toks(&m.expr)));
                    }
                    let mut some_ok = false;
                    for a in &m.arms {
                        let p = squash(&toks(&a.pat));
                        let b = squash(&toks(&a.body));
                        if p == "Some (DbReplMeta :: V1 { ruv : db_ruv })" {
                            if !b.contains("self . get_ruv () . restore (db_ruv . into_iter () . map (| db_cid | db_cid . into ())) ?") {
                                return Err(format!("restore: repl_meta arm `{b}`"));
                            }
                            some_ok = true;
                        } else if p == "None" {
                            no_repl_continues = !b.contains("return");
                        } else {
                            return Err(format!("restore: repl_meta pattern `{p}`"));
                        }
                    }
                    if !some_ok {
                        return Err("restore: no `Some(DbReplMeta::V1 {..})` arm".into());
                    }
                    steps.push(".ruvRestore");
                } else if s == "idlayer . write_identries_raw (identries ? . into_iter ()) ?" {
                    steps.push(".writeEntries");
                } else {
                    return Err(format!("restore: unrecognised statement `{s}`"));
                }
            }
            Stmt::Item(_) => return Err("restore: nested item".into()),
        }
    }
    if version_op.is_empty() {
        return Err("restore: no version check found".into());
    }
    Ok(RestoreInfo {
        arms,
        version_op,
        no_version_refused,
        no_repl_continues,
        first_id: first_id.ok_or("restore: identries not found")?,
        steps,
    })
}

fn parse_arm(a: &syn::Arm, variants: &[(u32, Vec<String>, bool)]) -> Result<Arm, String> {
    let (variant, bound): (u32, Vec<String>) = match &a.pat {
        Pat::TupleStruct(t) => {
            let v = variant_no(&t.path.segments.last().map(|s| s.ident.to_string()).unwrap_or_default())?;
            let b: Vec<String> = t.elems.iter().map(|p| squash(&toks(p))).collect();
            if b != ["dbentries"] {
                return Err(format!("restore: tuple arm binds {b:?}"));
            }
            (v, vec!["entries".into()])
        }
        Pat::Struct(s) => {
            let v = variant_no(&s.path.segments.last().map(|x| x.ident.to_string()).unwrap_or_default())?;
            if s.rest.is_some() {
                return Err(format!("restore: arm V{v} ignores fields with `..`"));
            }
            let mut b = vec![];
            for fp in &s.fields {
                let name = match &fp.member {
                    syn::Member::Named(i) => i.to_string(),
                    _ => return Err("restore: unnamed member in pattern".into()),
                };
                if squash(&toks(&fp.pat)) != name {
                    return Err(format!("restore: arm V{v} renames field `{name}` to `{}`", toks(&fp.pat)));
                }
                b.push(name);
            }
            (v, b)
        }
        p => return Err(format!("restore: unrecognised arm pattern `{}`", toks(p))),
    };
    let decl = variants.iter().find(|(n, _, _)| *n == variant).ok_or_else(|| format!("restore: arm for undeclared variant V{variant}"))?;
    let mut want = decl.1.clone();
    let mut got = bound.clone();
    want.sort();
    got.sort();
    if want != got {
        return Err(format!("restore: arm V{variant} binds {bound:?}, the variant declares {:?}", decl.1));
    }
    // body
    let (stmts, tail): (Vec<&Stmt>, Expr) = match &*a.body {
        Expr::Block(b) => {
            let mut st: Vec<&Stmt> = b.block.stmts.iter().collect();
            match st.pop() {
                Some(Stmt::Expr(e, None)) => (st, e.clone()),
                _ => return Err(format!("restore: arm V{variant} does not end in a tuple")),
            }
        }
        e => (vec![], e.clone()),
    };
    let mut writes = vec![];
    for st in stmts {
        let s = squash(&toks(st));
        let parsed = [
            ("idlayer . write_db_s_uuid (", ".writeSUuid"),
            ("idlayer . write_db_d_uuid (", ".writeDUuid"),
            ("idlayer . set_db_ts_max (", ".setTsMax"),
            ("idlayer . set_key_handles (", ".setKeyHandles"),
        ]
        .iter()
        .find_map(|(pre, sink)| s.strip_prefix(pre).and_then(|r| r.strip_suffix(") ? ;")).map(|arg| (arg.trim().to_string(), *sink)));
        match parsed {
            Some((arg, sink)) => {
                lean_field(&arg)?;
                if !bound.contains(&arg) {
                    return Err(format!("restore: arm V{variant} writes `{arg}` which it does not bind"));
                }
                writes.push((arg, sink));
            }
            None => return Err(format!("restore: arm V{variant}: unrecognised statement `{s}`")),
        }
    }
    let elems: Vec<Expr> = match &tail {
        Expr::Tuple(t) => t.elems.iter().cloned().collect(),
        e => return Err(format!("restore: arm V{variant} yields `{}`", toks(e))),
    };
    if elems.len() != 3 {
        return Err(format!("restore: arm V{variant} yields a {}-tuple", elems.len()));
    }
    let first = squash(&toks(&elems[0]));
    let entries = match first.as_str() {
        "entries" => Some("entries".to_string()),
        "dbentries" if bound == ["entries"] => Some("entries".to_string()),
        o => return Err(format!("restore: arm V{variant} yields `{o}` as the entries")),
    };
    let repl = opt_ident(&elems[1])?;
    let version = opt_ident(&elems[2])?;
    for (x, want) in [(&repl, "repl_meta"), (&version, "version")] {
        if let Some(x) = x {
            if x != want || !bound.contains(x) {
                return Err(format!("restore: arm V{variant} passes `{x}` where `{want}` belongs"));
            }
        }
    }
    Ok(Arm { variant, writes, entries, repl, version })
}

/// `IdlArcSqliteWriteTransaction::write_identries_raw`: does it re-read the cached maximum entry id after
/// writing rows that carry their own ids?
fn parse_raw_write(repo: &str) -> Result<bool, String> {
    let arc = parse_file(repo, "server/lib/src/be/idl_arc_sqlite.rs")?;
    let f = find_fn(&arc, "IdlArcSqliteWriteTransaction::write_identries_raw")?;
    let b = squash(&toks(&f.block));
    let base = "{ self . entry_cache . clear () ; self . db . write_identries_raw (entries) . and_then (| () | self . db . get_allids ()) . map (| mut ids | { std :: mem :: swap (self . allids . deref_mut () , & mut ids) ; })";
    let refresh = " . and_then (| () | self . db . get_id2entry_max_id ()) . map (| mid | { * self . maxid = mid ; })";
    if b == format!("{base} }}") {
        Ok(false)
    } else if b == format!("{base}{refresh} }}") {
        Ok(true)
    } else {
        Err(format!("idl_arc_sqlite write_identries_raw: `{b}`"))
    }
}

fn parse_small(repo: &str) -> Result<(Vec<&'static str>, Vec<&'static str>, Vec<&'static str>, bool, bool, bool), String> {
    let ast = parse_file(repo, "server/lib/src/be/mod.rs")?;
    // danger_delete_all_db_content
    let f = find_fn(&ast, "BackendWriteTransaction::danger_delete_all_db_content")?;
    let body = squash(&toks(&f.block));
    let delete_steps = if body == "{ self . get_ruv () . clear () ; self . get_idlayer () . danger_purge_id2entry () . and_then (| _ | self . danger_purge_idxs ()) }" {
        vec![".ruvClear", ".purgeId2entry", ".purgeIdxs"]
    } else {
        return Err(format!("danger_delete_all_db_content: `{body}`"));
    };
    // commit
    let f = find_fn(&ast, "BackendWriteTransaction::commit")?;
    let mut commit_steps = vec![];
    for st in &f.block.stmts {
        let s = squash(&toks(st));
        if s.starts_with("let BackendWriteTransaction {") {
            continue;
        } else if s == "idlayer . write_db_ruv (ruv . added () , ruv . removed ()) ? ;" {
            commit_steps.push(".writeDbRuv");
        } else if s == "idlayer . commit () . map (| () | { ruv . commit () ; idxmeta_wr . commit () ; })" {
            commit_steps.extend([".idlCommit", ".ruvCommit", ".idxmetaCommit"]);
        } else {
            return Err(format!("commit: unrecognised statement `{s}`"));
        }
    }
    // idl_arc_sqlite passes (added, removed) through unchanged
    let arc = parse_file(repo, "server/lib/src/be/idl_arc_sqlite.rs")?;
    let f = find_fn(&arc, "IdlArcSqliteWriteTransaction::write_db_ruv")?;
    if squash(&toks(&f.block)) != "{ self . db . write_db_ruv (added , removed) }" {
        return Err(format!("idl_arc_sqlite write_db_ruv: `{}`", squash(&toks(&f.block))));
    }
    // idl_sqlite write_db_ruv: [prepare(sql); iter.try_for_each] twice
    let sq = parse_file(repo, "server/lib/src/be/idl_sqlite.rs")?;
    let f = find_fn(&sq, "IdlSqliteWriteTransaction::write_db_ruv")?;
    let params: Vec<String> = f.sig.inputs.iter().map(|a| squash(&toks(a))).collect();
    if params != ["& mut self", "mut added : I", "mut removed : J"] {
        return Err(format!("write_db_ruv parameters {params:?}"));
    }
    let mut ruv_steps = vec![];
    let mut pending: Option<&'static str> = None;
    for st in &f.block.stmts {
        let s = squash(&toks(st));
        if s.starts_with("let mut stmt =") {
            pending = Some(if s.contains("\"DELETE FROM {}.ruv WHERE cid = :cid\"") {
                "delete"
            } else if s.contains("\"INSERT OR REPLACE INTO {}.ruv (cid) VALUES(:cid)\"") {
                "insert"
            } else {
                return Err(format!("write_db_ruv: unrecognised statement `{s}`"));
            });
        } else if s.starts_with("removed . try_for_each (") || s.starts_with("added . try_for_each (") {
            let who = if s.starts_with("removed") { "removed" } else { "added" };
            match (pending.take(), who) {
                (Some("delete"), "removed") => ruv_steps.push(".dbRuvRemove"),
                (Some("insert"), "added") => ruv_steps.push(".dbRuvInsert"),
                (p, w) => return Err(format!("write_db_ruv: `{w}` is run through the {p:?} statement")),
            }
        } else {
            return Err(format!("write_db_ruv: unrecognised statement `{s}`"));
        }
    }
    if ruv_steps.len() != 2 {
        return Err(format!("write_db_ruv: steps {ruv_steps:?}"));
    }
    // ruv.rs
    let ruv = parse_file(repo, "server/lib/src/repl/ruv.rs")?;
    let f = find_fn(&ruv, "ReplicationUpdateVectorTransaction::to_db_backup_ruv")?;
    if squash(&toks(&f.block)) != "{ DbReplMeta :: V1 { ruv : self . ruv_snapshot () . keys () . map (| cid | cid . into ()) . collect () , } }" {
        return Err(format!("to_db_backup_ruv: `{}`", squash(&toks(&f.block))));
    }
    let f = find_fn(&ruv, "ReplicationUpdateVectorWriteTransaction::clear")?;
    if squash(&toks(&f.block)) != "{ self . added = None ; self . data . clear () ; self . ranged . clear () ; }" {
        return Err(format!("ruv clear: `{}`", squash(&toks(&f.block))));
    }
    let f = find_fn(&ruv, "ReplicationUpdateVectorWriteTransaction::restore")?;
    let b = squash(&toks(&f.block));
    let empty_idl = b.contains("if ! rebuild_ruv . contains_key (& cid) { let idl = IDLBitRange :: new () ; rebuild_ruv . insert (cid . clone () , idl) ; }");
    if !empty_idl
        || !b.contains("if let Some (server_range) = rebuild_range . get_mut (& cid . s_uuid) { server_range . insert (cid . ts) ; } else { let mut ts_range = BTreeSet :: default () ; ts_range . insert (cid . ts) ; rebuild_range . insert (cid . s_uuid , ts_range) ; }")
        || !b.contains("self . data . extend (rebuild_ruv) ; self . ranged . extend (rebuild_range) ;")
    {
        return Err(format!("ruv restore: `{b}`"));
    }
    let f = find_fn(&ruv, "ReplicationUpdateVectorWriteTransaction::rebuild")?;
    let b = squash(&toks(&f.block));
    let only_existing = b.contains("for cid in ecstate . cid_iter () { if let Some (idl) = self . data . get_mut (cid) { idl . insert_id (eid) ; } }");
    if !only_existing {
        return Err(format!("ruv rebuild: `{b}`"));
    }
    // restore_server_core
    let core = parse_file(repo, "server/core/src/lib.rs")?;
    let f = find_fn(&core, "restore_server_core")?;
    let b = squash(&toks(&f.block));
    let only_ok = b.contains("let r = be_wr_txn . restore (input , compression) . and_then (| _ | be_wr_txn . commit ()) ;");
    if !only_ok {
        return Err("restore_server_core: `restore(..).and_then(|_| commit())` not found".into());
    }
    if !b.contains("reindex_inner (be , schema , config) . await ;") {
        return Err("restore_server_core: no reindex after the restore".into());
    }
    Ok((delete_steps, commit_steps, ruv_steps, only_ok, empty_idl, only_existing))
}

fn backup_ops(repo: &str, out: &str) -> Result<String, String> {
    let variants = parse_variants(repo)?;
    let (bvariant, bfields, brequired) = parse_backup(repo)?;
    let ri = parse_restore(repo, &variants)?;
    let (delete_steps, commit_steps, ruv_steps, only_ok, empty_idl, only_existing) = parse_small(repo)?;
    let raw_refresh = parse_raw_write(repo)?;
    let lf = |n: &str| lean_field(n).unwrap_or("?");
    let mut s = String::new();
    s += "namespace Kanidm.Backup\n\n";
    s += "/-- the fields of `enum DbBackup`'s variants -/\ninductive Field where\n  | version | sUuid | dUuid | tsMax | keys | replMeta | entries\n  deriving DecidableEq, Repr\n\n";
    s += "/-- where `backup` takes a field's value from -/\ninductive Src where\n  | pkgSeries | dbSUuid | dbDUuid | dbTsMax | keyHandles | ruvBackup | rawEntries\n  deriving DecidableEq, Repr\n\n";
    s += "/-- where an arm of `restore` writes a field's value to -/\ninductive Sink where\n  | writeSUuid | writeDUuid | setTsMax | setKeyHandles\n  deriving DecidableEq, Repr\n\n";
    s += "/-- the top-level phases of `restore`, `danger_delete_all_db_content`, `commit` -/\ninductive Step where\n  | parse | deleteAll | arms | versionCheck | ruvRestore | writeEntries | verify\n  | ruvClear | purgeId2entry | purgeIdxs\n  | writeDbRuv | idlCommit | ruvCommit | idxmetaCommit\n  | dbRuvRemove | dbRuvInsert\n  deriving DecidableEq, Repr\n\n";
    s += "/-- `enum DbBackup` in declaration order — serde `untagged` takes the first variant that fits -/\ndef variants : List (Nat × List Field) :=\n  [";
    s += &variants
        .iter()
        .map(|(n, fs, _)| format!("({n}, [{}])", fs.iter().map(|f| lf(f)).collect::<Vec<_>>().join(", ")))
        .collect::<Vec<_>>()
        .join(",\n   ");
    s += "]\n\n";
    s += &format!(
        "/-- the variants that are tuples (a bare JSON array), not structs -/\ndef tupleVariants : List Nat := [{}]\n\n",
        variants.iter().filter(|v| v.2).map(|v| v.0.to_string()).collect::<Vec<_>>().join(", ")
    );
    s += &format!("/-- the variant `backup` builds -/\ndef backupVariant : Nat := {bvariant}\n\n");
    s += &format!(
        "/-- `DbBackup::V{bvariant} {{ … }}` in `backup`: each field and the source of its value -/\ndef backupFields : List (Field × Src) :=\n  [{}]\n\n",
        bfields.iter().map(|(f, src)| format!("({}, {src})", lf(f))).collect::<Vec<_>>().join(", ")
    );
    s += &format!(
        "/-- the sources `backup` refuses to continue without (`ok_or(InvalidDbState)`) -/\ndef backupRequired : List Src := [{}]\n\n",
        brequired.join(", ")
    );
    s += "/-- one arm of `match dbbak` in `restore`: the idlayer writes in order and the tuple\n`(dbentries, repl_meta, maybe_version)` -/\nstructure Arm where\n  writes : List (Field × Sink)\n  entries : Option Field\n  repl : Option Field\n  version : Option Field\n  deriving DecidableEq, Repr\n\n";
    s += "def restoreArm : Nat → Option Arm\n";
    let mut arms: Vec<&Arm> = ri.arms.iter().collect();
    arms.sort_by_key(|a| a.variant);
    let opt = |o: &Option<String>| match o {
        Some(f) => format!("some {}", lf(f)),
        None => "none".to_string(),
    };
    for a in &arms {
        s += &format!(
            "  | {} => some ⟨[{}], {}, {}, {}⟩\n",
            a.variant,
            a.writes.iter().map(|(f, k)| format!("({}, {k})", lf(f))).collect::<Vec<_>>().join(", "),
            opt(&a.entries),
            opt(&a.repl),
            opt(&a.version)
        );
    }
    s += "  | _ => none\n\n";
    s += &format!(
        "/-- `if version {} env!(\"KANIDM_PKG_SERIES\")` ⇒ `DB0001MismatchedRestoreVersion` -/\ndef versionRefuse (version series : Nat) : Bool := version {} series\n\n",
        ri.version_op, ri.version_op
    );
    s += &format!("/-- `maybe_version = None` ⇒ `DB0002MismatchedRestoreVersion` -/\ndef noVersionRefused : Bool := {}\n\n", ri.no_version_refused);
    s += &format!("/-- `repl_meta = None` ⇒ only a warning, the restore goes on -/\ndef noReplMetaContinues : Bool := {}\n\n", ri.no_repl_continues);
    s += &format!("/-- the first id `restore` assigns (`id_max = 0; id_max += 1` before use) -/\ndef firstId : Nat := {}\n\n", ri.first_id);
    s += &format!("/-- the phases of `restore` in source order -/\ndef restoreSteps : List Step :=\n  [{}]\n\n", ri.steps.join(", "));
    s += &format!("/-- `danger_delete_all_db_content` -/\ndef deleteAllSteps : List Step := [{}]\n\n", delete_steps.join(", "));
    s += &format!("/-- `BackendWriteTransaction::commit` -/\ndef commitSteps : List Step := [{}]\n\n", commit_steps.join(", "));
    s += &format!("/-- `IdlSqliteWriteTransaction::write_db_ruv`: the two statements in source order -/\ndef dbRuvSteps : List Step := [{}]\n\n", ruv_steps.join(", "));
    s += &format!("/-- `restore_server_core`: `be_wr_txn.restore(..).and_then(|_| be_wr_txn.commit())` — commit only after `Ok` -/\ndef commitOnlyOnOk : Bool := {only_ok}\n\n");
    s += &format!("/-- `ReplicationUpdateVector::restore` inserts an empty id list for a cid not yet present -/\ndef ruvRestoreEmptyIdl : Bool := {empty_idl}\n\n");
    s += &format!("/-- `ReplicationUpdateVector::rebuild` only adds ids to cids that are already present -/\ndef ruvRebuildOnlyExisting : Bool := {only_existing}\n\n");
    s += &format!("/-- `IdlArcSqliteWriteTransaction::write_identries_raw` re-reads the cached maximum entry id after the write -/\ndef rawWriteRefreshesMaxId : Bool := {raw_refresh}\n\n");
    s += "end Kanidm.Backup\n";
    write_generated(
        out,
        "BackupOps",
        "server/lib/src/be/dbentry.rs (enum DbBackup), server/lib/src/be/mod.rs (backup, restore, danger_delete_all_db_content, commit), server/lib/src/be/idl_sqlite.rs + idl_arc_sqlite.rs (write_db_ruv), server/lib/src/repl/ruv.rs (to_db_backup_ruv, clear, restore, rebuild), server/core/src/lib.rs (restore_server_core)",
        &s,
    )?;
    Ok(format!(
        "BackupOps: {} variants, backup writes V{bvariant} ({} fields), {} restore arms, version `{}`, steps {:?}, ruv table {:?}",
        variants.len(),
        bfields.len(),
        ri.arms.len(),
        ri.version_op,
        ri.steps,
        ruv_steps
    ))
}
