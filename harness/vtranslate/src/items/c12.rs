//! C12 translator item `storecodec-tables`: every variant→variant conversion between the
//! in-memory value types and their stored / replicated encodings, re-read from the source on
//! every run and printed as Lean data (`KanidmModel/Generated/StoreCodecTables.lean`):
//!
//!  * tag pairs — for each configured (encoder fn, decoder fn, in-memory enum, stored enum):
//!    the arms `Mem::A => Db::X` of the encoder's `match` and `Db::X => Mem::A` (or reject) of the
//!    decoder's `match`;
//!  * record pairs (`Kdf ↔ DbPasswordV1`, `IntentTokenState ↔ DbValueIntentTokenStateV1`):
//!    additionally the slot flow of every arm (which bound field is copied into which field);
//!  * the valueset dispatch: `impl ValueSetT for ValueSetX { fn to_db_valueset_v2 }` ↦ the
//!    `DbValueSetV2` constructor it builds, and `from_db_valueset_v2`'s arms ↦ the
//!    `ValueSetZ::from_dbvs2` they call; `ValueSetX::syntax()`; the serde names of
//!    `DbValueSetV2`'s variants;
//!  * version pairs: which `DbValueSession::Vn` / `DbValueOauth2Session::Vn` the encoder writes
//!    and which versions the decoder accepts.
//!
//! It never guesses: an arm whose destination cannot be identified uniquely, a guard, a
//! missing function or a second candidate `match` is an `Err`.
use crate::util::*;
#[path = "c12_decode.rs"]
mod decode_ctor;
use quote::ToTokens;
use std::collections::BTreeMap;
use syn::visit::Visit;

pub fn run(item: &str, repo: &str, out: &str) -> Option<Result<String, String>> {
    match item {
        "storecodec-tables" => Some(tables(repo, out)),
        _ => None,
    }
}

// ---------------------------------------------------------------------------------------
// locating functions

#[derive(Clone, Copy)]
enum FnRef {
    /// `Type::name` or `Trait@Type::name` (util::find_fn)
    Spec(&'static str),
    /// `impl Trait<Arg> for Ty { fn name }`
    TraitArg { tr: &'static str, arg: &'static str, ty: &'static str, name: &'static str },
}

fn last_ident(t: &syn::Type) -> String {
    match t {
        syn::Type::Path(p) => p.path.segments.last().map(|s| s.ident.to_string()).unwrap_or_default(),
        syn::Type::Reference(r) => last_ident(&r.elem),
        _ => t.to_token_stream().to_string(),
    }
}

fn find_trait_arg_fn(file: &syn::File, tr: &str, arg: &str, ty: &str, name: &str) -> Result<syn::Block, String> {
    let mut found = vec![];
    for it in &file.items {
        let syn::Item::Impl(i) = it else { continue };
        let Some((_, p, _)) = &i.trait_ else { continue };
        let Some(seg) = p.segments.last() else { continue };
        if seg.ident != tr || last_ident(&i.self_ty) != ty {
            continue;
        }
        let syn::PathArguments::AngleBracketed(ab) = &seg.arguments else { continue };
        let ok = ab.args.iter().any(|a| match a {
            syn::GenericArgument::Type(t) => last_ident(t) == arg,
            _ => false,
        });
        if !ok {
            continue;
        }
        for ii in &i.items {
            if let syn::ImplItem::Fn(f) = ii {
                if f.sig.ident == name {
                    found.push(f.block.clone());
                }
            }
        }
    }
    match found.len() {
        1 => Ok(found.remove(0)),
        n => Err(format!("impl {tr}<{arg}> for {ty}::{name}: {n} matches")),
    }
}

fn get_block(repo: &str, file: &str, f: FnRef) -> Result<syn::Block, String> {
    let ast = parse_file(repo, file)?;
    match f {
        FnRef::Spec(s) => find_fn(&ast, s).map(|x| x.block).map_err(|e| format!("{file}: {e}")),
        FnRef::TraitArg { tr, arg, ty, name } => {
            find_trait_arg_fn(&ast, tr, arg, ty, name).map_err(|e| format!("{file}: {e}"))
        }
    }
}

fn fnref_name(f: FnRef) -> String {
    match f {
        FnRef::Spec(s) => s.to_string(),
        FnRef::TraitArg { tr, arg, ty, name } => format!("{tr}<{arg}> for {ty}::{name}"),
    }
}

// ---------------------------------------------------------------------------------------
// paths, patterns, arms

fn segs(p: &syn::Path) -> Vec<String> {
    p.segments.iter().map(|s| s.ident.to_string()).collect()
}

/// `…::Enum::Variant` ↦ `Variant`
fn variant_of_path(p: &syn::Path, enum_name: &str) -> Option<String> {
    let s = segs(p);
    if s.len() >= 2 && s[s.len() - 2] == enum_name {
        Some(s[s.len() - 1].clone())
    } else {
        None
    }
}

fn pat_path(p: &syn::Pat) -> Option<&syn::Path> {
    match p {
        syn::Pat::Struct(s) => Some(&s.path),
        syn::Pat::TupleStruct(s) => Some(&s.path),
        syn::Pat::Path(s) => Some(&s.path),
        syn::Pat::Reference(r) => pat_path(&r.pat),
        syn::Pat::Paren(r) => pat_path(&r.pat),
        _ => None,
    }
}

fn or_cases(p: &syn::Pat) -> Vec<&syn::Pat> {
    match p {
        syn::Pat::Or(o) => o.cases.iter().flat_map(or_cases).collect(),
        syn::Pat::Paren(q) => or_cases(&q.pat),
        p => vec![p],
    }
}

fn is_catch_all(p: &syn::Pat) -> bool {
    match p {
        syn::Pat::Wild(_) => true,
        syn::Pat::Ident(i) => i.subpat.is_none(),
        _ => false,
    }
}

/// Does a pattern below the variant constructor contain a refutable sub-pattern
/// (`password: Some(x)`)? Then the arm covers only part of the variant.
fn has_refutable_sub(p: &syn::Pat) -> bool {
    fn sub(p: &syn::Pat) -> bool {
        match p {
            syn::Pat::Wild(_) | syn::Pat::Rest(_) => false,
            syn::Pat::Ident(i) => i.subpat.as_ref().map(|(_, s)| sub(s)).unwrap_or(false),
            syn::Pat::Reference(r) => sub(&r.pat),
            syn::Pat::Paren(r) => sub(&r.pat),
            syn::Pat::Tuple(t) => t.elems.iter().any(sub),
            // a nested struct pattern of a plain struct (not an enum variant) is irrefutable;
            // we cannot tell without types, so only single-segment paths count as structs
            syn::Pat::Struct(s) => s.path.segments.len() > 1 || s.fields.iter().any(|f| sub(&f.pat)),
            _ => true,
        }
    }
    match p {
        syn::Pat::Struct(s) => s.fields.iter().any(|f| sub(&f.pat)),
        syn::Pat::TupleStruct(s) => s.elems.iter().any(sub),
        syn::Pat::Reference(r) => has_refutable_sub(&r.pat),
        syn::Pat::Paren(r) => has_refutable_sub(&r.pat),
        _ => false,
    }
}

struct Matches(Vec<syn::ExprMatch>);
impl<'ast> Visit<'ast> for Matches {
    fn visit_expr_match(&mut self, m: &'ast syn::ExprMatch) {
        self.0.push(m.clone());
        syn::visit::visit_expr_match(self, m);
    }
}

fn all_matches_block(b: &syn::Block) -> Vec<syn::ExprMatch> {
    let mut v = Matches(vec![]);
    v.visit_block(b);
    v.0
}

fn all_matches_expr(e: &syn::Expr) -> Vec<syn::ExprMatch> {
    let mut v = Matches(vec![]);
    v.visit_expr(e);
    v.0
}

fn match_mentions(m: &syn::ExprMatch, enum_name: &str) -> bool {
    m.arms.iter().any(|a| {
        or_cases(&a.pat)
            .iter()
            .any(|c| pat_path(c).and_then(|p| variant_of_path(p, enum_name)).is_some())
    })
}

/// The single `match` over `enum_name` inside `ms`.
fn the_match(ms: Vec<syn::ExprMatch>, enum_name: &str, ctx: &str) -> Result<syn::ExprMatch, String> {
    let mut c: Vec<syn::ExprMatch> = ms.into_iter().filter(|m| match_mentions(m, enum_name)).collect();
    match c.len() {
        1 => Ok(c.remove(0)),
        n => Err(format!("{ctx}: expected exactly one `match` over {enum_name}, found {n}")),
    }
}

struct Paths(Vec<Vec<String>>);
impl<'ast> Visit<'ast> for Paths {
    fn visit_path(&mut self, p: &'ast syn::Path) {
        self.0.push(segs(p));
        syn::visit::visit_path(self, p);
    }
}

fn paths_in_expr(e: &syn::Expr) -> Vec<Vec<String>> {
    let mut v = Paths(vec![]);
    v.visit_expr(e);
    v.0
}

fn paths_in_block(b: &syn::Block) -> Vec<Vec<String>> {
    let mut v = Paths(vec![]);
    v.visit_block(b);
    v.0
}

/// Distinct variants of `enum_name` named anywhere in `e`, in order of first appearance.
fn variants_named(paths: &[Vec<String>], enum_name: &str) -> Vec<String> {
    let mut out: Vec<String> = vec![];
    for s in paths {
        if s.len() >= 2 && s[s.len() - 2] == enum_name {
            let v = s[s.len() - 1].clone();
            if !out.contains(&v) {
                out.push(v);
            }
        }
    }
    out
}

fn looks_like_reject(e: &syn::Expr) -> bool {
    let ps = paths_in_expr(e);
    ps.iter().any(|s| s.len() == 1 && (s[0] == "Err" || s[0] == "None"))
}

/// One analysed arm case: source variant (None = catch-all), destination (None = reject).
#[derive(Clone, Debug)]
struct ArmCase {
    src: Option<String>,
    dst: Option<String>,
    partial: bool,
}

fn analyse_match(m: &syn::ExprMatch, src_enum: &str, dst_enum: &str, ctx: &str) -> Result<Vec<ArmCase>, String> {
    let mut out = vec![];
    for a in &m.arms {
        if a.guard.is_some() {
            return Err(format!("{ctx}: guard on arm `{}`", a.pat.to_token_stream()));
        }
        let named = variants_named(&paths_in_expr(&a.body), dst_enum);
        let dst = match named.len() {
            0 => {
                if looks_like_reject(&a.body) {
                    None
                } else {
                    return Err(format!(
                        "{ctx}: arm `{}` names no {dst_enum} variant and is not an Err/None",
                        a.pat.to_token_stream()
                    ));
                }
            }
            1 => Some(named[0].clone()),
            _ => {
                return Err(format!(
                    "{ctx}: arm `{}` names several {dst_enum} variants {named:?}",
                    a.pat.to_token_stream()
                ))
            }
        };
        for c in or_cases(&a.pat) {
            if is_catch_all(c) {
                out.push(ArmCase { src: None, dst: dst.clone(), partial: false });
            } else {
                let v = pat_path(c)
                    .and_then(|p| variant_of_path(p, src_enum))
                    .ok_or_else(|| format!("{ctx}: pattern `{}` is not a {src_enum} variant", c.to_token_stream()))?;
                out.push(ArmCase { src: Some(v), dst: dst.clone(), partial: has_refutable_sub(c) });
            }
        }
    }
    Ok(out)
}

/// Restrict the search to the body of the arm (of any match in `b`) whose pattern is
/// `enum_name::variant`.
fn arm_body_of(b: &syn::Block, enum_name: &str, variant: &str, ctx: &str) -> Result<syn::Expr, String> {
    let mut found = vec![];
    for m in all_matches_block(b) {
        for a in &m.arms {
            for c in or_cases(&a.pat) {
                if pat_path(c).and_then(|p| variant_of_path(p, enum_name)).as_deref() == Some(variant) {
                    found.push((*a.body).clone());
                }
            }
        }
    }
    match found.len() {
        1 => Ok(found.remove(0)),
        n => Err(format!("{ctx}: expected one arm for {enum_name}::{variant}, found {n}")),
    }
}

// ---------------------------------------------------------------------------------------
// tag pairs

struct PairSpec {
    name: &'static str,
    mem_enum: &'static str,
    db_enum: &'static str,
    enc_file: &'static str,
    enc_fn: FnRef,
    dec_file: &'static str,
    dec_fn: FnRef,
    /// search the decoder only inside the arm for this (enum, variant) of an outer match
    dec_within: Option<(&'static str, &'static str)>,
    slots: bool,
}

struct TagPair {
    name: String,
    mem_enum: String,
    db_enum: String,
    mem_names: Vec<String>,
    db_names: Vec<String>,
    /// serde name of each stored variant (filled by `fill_serde`)
    db_serde: Vec<String>,
    enc: Vec<(usize, usize)>,
    dec: Vec<(usize, Option<usize>, bool)>,
    src: String,
}

const DB_ENUM_FILES: [&str; 4] = [
    "server/lib/src/be/dbvalue.rs",
    "libs/crypto/src/lib.rs",
    "server/lib/src/be/dbrepl.rs",
    "server/lib/src/repl/proto.rs",
];

/// Look the stored enum up in the files that define the stored types and record the serde name
/// of every variant the tables mention; a variant the definition does not have is an error.
fn fill_serde(repo: &str, p: &mut TagPair) -> Result<(), String> {
    for f in DB_ENUM_FILES {
        if let Ok(vs) = enum_variants(repo, f, &p.db_enum) {
            let mut out = vec![];
            for n in &p.db_names {
                let v = vs.iter().find(|v| v.name == *n).ok_or_else(|| format!("{}: {f}: enum {} has no variant {n}", p.name, p.db_enum))?;
                out.push(v.serde.clone());
            }
            p.db_serde = out;
            return Ok(());
        }
    }
    Err(format!("{}: definition of enum {} not found in {DB_ENUM_FILES:?}", p.name, p.db_enum))
}

fn idx_of(names: &mut Vec<String>, v: &str) -> usize {
    if let Some(i) = names.iter().position(|x| x == v) {
        i
    } else {
        names.push(v.to_string());
        names.len() - 1
    }
}

fn build_pair(
    name: &str,
    mem_enum: &str,
    db_enum: &str,
    enc_cases: &[ArmCase],
    dec_cases: &[ArmCase],
    src: String,
) -> Result<TagPair, String> {
    let mut mem_names = vec![];
    let mut db_names = vec![];
    // in-memory variants = the encoder's (exhaustive) patterns, in source order
    for c in enc_cases {
        match &c.src {
            Some(v) => {
                idx_of(&mut mem_names, v);
            }
            None => return Err(format!("{name}: encoder has a catch-all arm; the in-memory variants cannot be enumerated")),
        }
        if c.partial {
            return Err(format!("{name}: encoder arm for {:?} has a refutable sub-pattern", c.src));
        }
    }
    for c in dec_cases {
        if let Some(v) = &c.src {
            idx_of(&mut db_names, v);
        }
    }
    let wildcard = dec_cases.iter().find(|c| c.src.is_none()).cloned();
    let mut enc = vec![];
    for c in enc_cases {
        let a = idx_of(&mut mem_names, c.src.as_ref().unwrap());
        let d = match &c.dst {
            Some(d) => d,
            None => return Err(format!("{name}: encoder arm for {:?} produces no {db_enum} variant", c.src)),
        };
        let known = db_names.contains(d);
        let di = idx_of(&mut db_names, d);
        if !known && wildcard.is_none() {
            return Err(format!("{name}: decoder has no arm for {db_enum}::{d}"));
        }
        if enc.iter().any(|(x, _)| *x == a) {
            return Err(format!("{name}: two encoder arms for {mem_enum}::{}", mem_names[a]));
        }
        enc.push((a, di));
    }
    // decoder: first arm naming the variant wins (rust semantics); a partial arm falls through
    // to a later arm / the wildcard for the rest of the variant — recorded as `partial`.
    let mut dec = vec![];
    for (di, dn) in db_names.iter().enumerate() {
        let arm = dec_cases.iter().find(|c| c.src.as_deref() == Some(dn.as_str()));
        let (dst, partial) = match arm {
            Some(c) => (c.dst.clone(), c.partial),
            None => match &wildcard {
                Some(w) => (w.dst.clone(), false),
                None => return Err(format!("{name}: decoder has no arm for {db_enum}::{dn}")),
            },
        };
        let a = match dst {
            Some(v) => match mem_names.iter().position(|x| *x == v) {
                Some(i) => Some(i),
                None => return Err(format!("{name}: decoder yields {mem_enum}::{v} which the encoder never matches")),
            },
            None => None,
        };
        dec.push((di, a, partial));
    }
    Ok(TagPair {
        name: name.to_string(),
        mem_enum: mem_enum.to_string(),
        db_enum: db_enum.to_string(),
        mem_names,
        db_names,
        db_serde: vec![],
        enc,
        dec,
        src,
    })
}

/// Equal strings ⇔ equal numbers (first occurrence order).
fn intern_ids(v: &[String]) -> Vec<usize> {
    let mut seen: Vec<&String> = vec![];
    v.iter()
        .map(|s| match seen.iter().position(|x| *x == s) {
            Some(i) => i,
            None => {
                seen.push(s);
                seen.len() - 1
            }
        })
        .collect()
}

fn lean_str_list(v: &[String]) -> String {
    format!("[{}]", v.iter().map(|s| format!("\"{s}\"")).collect::<Vec<_>>().join(", "))
}

fn lean_opt(o: Option<usize>) -> String {
    match o {
        Some(i) => format!("some {i}"),
        None => "none".into(),
    }
}

fn lean_tagpair(p: &TagPair) -> String {
    let enc = p.enc.iter().map(|(a, d)| format!("({a}, {d})")).collect::<Vec<_>>().join(", ");
    let dec = p.dec.iter().map(|(d, a, _)| format!("({d}, {})", lean_opt(*a))).collect::<Vec<_>>().join(", ");
    format!(
        "  {{ name := \"{}\", memEnum := \"{}\", dbEnum := \"{}\",\n    memNames := {},\n    dbNames := {},\n    dbSerde := {},\n    dbSerdeIds := {},\n    nMem := {}, nDb := {},\n    enc := [{}],\n    dec := [{}] }}",
        p.name,
        p.mem_enum,
        p.db_enum,
        lean_str_list(&p.mem_names),
        lean_str_list(&p.db_names),
        lean_str_list(&p.db_serde),
        lean_nat_list(&intern_ids(&p.db_serde)),
        p.mem_names.len(),
        p.db_names.len(),
        enc,
        dec
    )
}

// ---------------------------------------------------------------------------------------
// slot flow (record pairs)

fn member_name(m: &syn::Member) -> String {
    match m {
        syn::Member::Named(i) => i.to_string(),
        syn::Member::Unnamed(i) => i.index.to_string(),
    }
}

fn join(prefix: &str, k: &str) -> String {
    if prefix.is_empty() {
        k.to_string()
    } else {
        format!("{prefix}.{k}")
    }
}

/// Pattern below a variant constructor ↦ (slot key, binder) in source order. `_` binders are
/// reported as "_"; a `..` rest is reported through `has_rest`.
fn pat_slots(p: &syn::Pat, prefix: &str, out: &mut Vec<(String, String)>, has_rest: &mut bool) -> Result<(), String> {
    match p {
        syn::Pat::TupleStruct(t) => {
            for (i, e) in t.elems.iter().enumerate() {
                pat_slots(e, &join(prefix, &i.to_string()), out, has_rest)?;
            }
            Ok(())
        }
        syn::Pat::Struct(s) => {
            if s.rest.is_some() {
                *has_rest = true;
            }
            for f in &s.fields {
                pat_slots(&f.pat, &join(prefix, &member_name(&f.member)), out, has_rest)?;
            }
            Ok(())
        }
        syn::Pat::Path(_) => Ok(()),
        syn::Pat::Ident(i) if i.subpat.is_none() => {
            out.push((prefix.to_string(), i.ident.to_string()));
            Ok(())
        }
        syn::Pat::Wild(_) => {
            out.push((prefix.to_string(), "_".into()));
            Ok(())
        }
        syn::Pat::Rest(_) => {
            *has_rest = true;
            Ok(())
        }
        syn::Pat::Reference(r) => pat_slots(&r.pat, prefix, out, has_rest),
        syn::Pat::Paren(r) => pat_slots(&r.pat, prefix, out, has_rest),
        other => Err(format!("unsupported pattern `{}`", other.to_token_stream())),
    }
}

fn is_ctor_path(p: &syn::Path) -> bool {
    p.segments.last().map(|s| s.ident.to_string().chars().next().map(|c| c.is_uppercase()).unwrap_or(false)).unwrap_or(false)
}

/// Constructor expression ↦ (slot key, source binder). Leaves may be wrapped in `*`, `&`,
/// `.clone()`, `.into()`, `.to_string()`, `.to_owned()`; anything else is an error.
fn expr_slots(e: &syn::Expr, prefix: &str, out: &mut Vec<(String, String)>) -> Result<(), String> {
    match e {
        syn::Expr::Struct(s) => {
            if s.rest.is_some() {
                return Err(format!("struct update syntax in `{}`", e.to_token_stream()));
            }
            for f in &s.fields {
                expr_slots(&f.expr, &join(prefix, &member_name(&f.member)), out)?;
            }
            Ok(())
        }
        syn::Expr::Call(c) => {
            if let syn::Expr::Path(p) = &*c.func {
                if is_ctor_path(&p.path) {
                    for (i, a) in c.args.iter().enumerate() {
                        expr_slots(a, &join(prefix, &i.to_string()), out)?;
                    }
                    return Ok(());
                }
            }
            Err(format!("unsupported call `{}`", e.to_token_stream()))
        }
        syn::Expr::Paren(p) => expr_slots(&p.expr, prefix, out),
        syn::Expr::Group(p) => expr_slots(&p.expr, prefix, out),
        syn::Expr::Unary(u) if matches!(u.op, syn::UnOp::Deref(_)) => expr_slots(&u.expr, prefix, out),
        syn::Expr::Reference(r) => expr_slots(&r.expr, prefix, out),
        syn::Expr::MethodCall(m)
            if m.args.is_empty()
                && ["clone", "into", "to_string", "to_owned", "to_vec"].contains(&m.method.to_string().as_str()) =>
        {
            expr_slots(&m.receiver, prefix, out)
        }
        syn::Expr::Path(p) if p.path.segments.len() == 1 => {
            out.push((prefix.to_string(), p.path.segments[0].ident.to_string()));
            Ok(())
        }
        other => Err(format!("unsupported field expression `{}`", other.to_token_stream())),
    }
}

/// The first constructor expression of `enum_name` inside `e`.
fn find_ctor_expr(e: &syn::Expr, enum_name: &str) -> Option<syn::Expr> {
    struct V<'a>(&'a str, Option<syn::Expr>);
    impl<'a, 'ast> Visit<'ast> for V<'a> {
        fn visit_expr(&mut self, e: &'ast syn::Expr) {
            if self.1.is_some() {
                return;
            }
            let hit = match e {
                syn::Expr::Struct(s) => variant_of_path(&s.path, self.0).is_some(),
                syn::Expr::Call(c) => match &*c.func {
                    syn::Expr::Path(p) => variant_of_path(&p.path, self.0).is_some(),
                    _ => false,
                },
                syn::Expr::Path(p) => variant_of_path(&p.path, self.0).is_some(),
                _ => false,
            };
            if hit {
                self.1 = Some(e.clone());
                return;
            }
            syn::visit::visit_expr(self, e);
        }
    }
    let mut v = V(enum_name, None);
    v.visit_expr(e);
    v.1
}

struct RecArm {
    src: usize,
    dst: usize,
    flow: Vec<usize>,
}

struct RecPair {
    name: String,
    mem_arity: Vec<usize>,
    db_arity: Vec<usize>,
    mem_slots: Vec<Vec<String>>,
    db_slots: Vec<Vec<String>>,
    enc: Vec<RecArm>,
    dec: Vec<RecArm>,
}

/// (variant, pattern slots (key, binder), has_rest, ctor slots (key, binder), dst variant)
struct SlotArm {
    src: String,
    dst: String,
    pat: Vec<(String, String)>,
    rest: bool,
    ctor: Vec<(String, String)>,
}

fn slot_arms(m: &syn::ExprMatch, src_enum: &str, dst_enum: &str, ctx: &str) -> Result<Vec<SlotArm>, String> {
    let mut out = vec![];
    for a in &m.arms {
        let cases = or_cases(&a.pat);
        if cases.len() != 1 {
            return Err(format!("{ctx}: or-pattern `{}` in a record pair", a.pat.to_token_stream()));
        }
        let c = cases[0];
        let src = pat_path(c)
            .and_then(|p| variant_of_path(p, src_enum))
            .ok_or_else(|| format!("{ctx}: pattern `{}` is not a {src_enum} variant", c.to_token_stream()))?;
        let mut pat = vec![];
        let mut rest = false;
        pat_slots(c, "", &mut pat, &mut rest).map_err(|e| format!("{ctx}: {src}: {e}"))?;
        let ce = find_ctor_expr(&a.body, dst_enum)
            .ok_or_else(|| format!("{ctx}: arm {src} builds no {dst_enum} value"))?;
        let dst = match &ce {
            syn::Expr::Struct(s) => variant_of_path(&s.path, dst_enum),
            syn::Expr::Call(c) => match &*c.func {
                syn::Expr::Path(p) => variant_of_path(&p.path, dst_enum),
                _ => None,
            },
            syn::Expr::Path(p) => variant_of_path(&p.path, dst_enum),
            _ => None,
        }
        .ok_or_else(|| format!("{ctx}: arm {src}: destination not a {dst_enum} constructor"))?;
        let mut ctor = vec![];
        if !matches!(ce, syn::Expr::Path(_)) {
            expr_slots(&ce, "", &mut ctor).map_err(|e| format!("{ctx}: {src}: {e}"))?;
        }
        out.push(SlotArm { src, dst, pat, rest, ctor });
    }
    Ok(out)
}

fn build_rec(name: &str, tp: &TagPair, enc: &[SlotArm], dec: &[SlotArm]) -> Result<RecPair, String> {
    // slot keys: in-memory variants from the encoder's pattern, stored variants from the decoder's
    let mut mem_slots: Vec<Vec<String>> = vec![vec![]; tp.mem_names.len()];
    let mut db_slots: Vec<Vec<String>> = vec![vec![]; tp.db_names.len()];
    for a in enc {
        let i = tp.mem_names.iter().position(|x| *x == a.src).ok_or("internal: mem variant")?;
        if a.rest || a.pat.iter().any(|(_, b)| b == "_") {
            return Err(format!("{name}: encoder ignores a field of {} (`..` or `_`): it cannot be read back", a.src));
        }
        mem_slots[i] = a.pat.iter().map(|(k, _)| k.clone()).collect();
    }
    for a in dec {
        let i = tp.db_names.iter().position(|x| *x == a.src).ok_or("internal: db variant")?;
        db_slots[i] = a.pat.iter().filter(|(_, b)| b != "_").map(|(k, _)| k.clone()).collect();
    }
    let mut renc = vec![];
    for a in enc {
        let ai = tp.mem_names.iter().position(|x| *x == a.src).unwrap();
        let di = tp.db_names.iter().position(|x| *x == a.dst).ok_or_else(|| format!("{name}: unknown stored variant {}", a.dst))?;
        let mut flow = vec![];
        for k in &db_slots[di] {
            let (_, b) = a
                .ctor
                .iter()
                .find(|(kk, _)| kk == k)
                .ok_or_else(|| format!("{name}: encoder arm {} does not set stored field {}.{k}", a.src, a.dst))?;
            let mi = a
                .pat
                .iter()
                .position(|(_, bb)| bb == b)
                .ok_or_else(|| format!("{name}: encoder arm {}: `{b}` is not bound by the pattern", a.src))?;
            flow.push(mi);
        }
        renc.push(RecArm { src: ai, dst: di, flow });
    }
    let mut rdec = vec![];
    for a in dec {
        let di = tp.db_names.iter().position(|x| *x == a.src).unwrap();
        let ai = tp.mem_names.iter().position(|x| *x == a.dst).ok_or_else(|| format!("{name}: unknown in-memory variant {}", a.dst))?;
        let dbk: Vec<&(String, String)> = a.pat.iter().filter(|(_, b)| b != "_").collect();
        let mut flow = vec![];
        for k in &mem_slots[ai] {
            let (_, b) = a
                .ctor
                .iter()
                .find(|(kk, _)| kk == k)
                .ok_or_else(|| format!("{name}: decoder arm {} does not set field {}.{k}", a.src, a.dst))?;
            let si = dbk
                .iter()
                .position(|(_, bb)| bb == b)
                .ok_or_else(|| format!("{name}: decoder arm {}: `{b}` is not bound by the pattern", a.src))?;
            flow.push(si);
        }
        // a constructor field that is not a slot of the in-memory variant would not compile
        rdec.push(RecArm { src: di, dst: ai, flow });
    }
    Ok(RecPair {
        name: name.to_string(),
        mem_arity: mem_slots.iter().map(|s| s.len()).collect(),
        db_arity: db_slots.iter().map(|s| s.len()).collect(),
        mem_slots,
        db_slots,
        enc: renc,
        dec: rdec,
    })
}

fn lean_nat_list(v: &[usize]) -> String {
    format!("[{}]", v.iter().map(|x| x.to_string()).collect::<Vec<_>>().join(", "))
}

fn lean_recpair(p: &RecPair) -> String {
    let arm = |a: &RecArm| format!("{{ src := {}, dst := {}, flow := {} }}", a.src, a.dst, lean_nat_list(&a.flow));
    let slots = |v: &Vec<Vec<String>>| {
        format!("[{}]", v.iter().map(|s| lean_str_list(s)).collect::<Vec<_>>().join(", "))
    };
    format!(
        "{{ name := \"{}\",\n    memArity := {},\n    dbArity := {},\n    memSlots := {},\n    dbSlots := {},\n    enc := [{}],\n    dec := [{}] }}",
        p.name,
        lean_nat_list(&p.mem_arity),
        lean_nat_list(&p.db_arity),
        slots(&p.mem_slots),
        slots(&p.db_slots),
        p.enc.iter().map(arm).collect::<Vec<_>>().join(",\n            "),
        p.dec.iter().map(arm).collect::<Vec<_>>().join(",\n            ")
    )
}

// ---------------------------------------------------------------------------------------
// valueset dispatch

const VS_DIR: &str = "server/lib/src/valueset";

fn valueset_files(repo: &str) -> Result<Vec<String>, String> {
    let mut out = vec![];
    let dir = format!("{repo}/{VS_DIR}");
    let mut stack = vec![dir.clone()];
    while let Some(d) = stack.pop() {
        for e in std::fs::read_dir(&d).map_err(|e| format!("{d}: {e}"))? {
            let e = e.map_err(|e| e.to_string())?;
            let p = e.path();
            if p.is_dir() {
                stack.push(p.to_string_lossy().to_string());
            } else if p.extension().map(|x| x == "rs").unwrap_or(false) {
                let full = p.to_string_lossy().to_string();
                out.push(full[repo.len() + 1..].to_string());
            }
        }
    }
    out.sort();
    Ok(out)
}

struct VsImpl {
    name: String,
    db_variant: String,
    syntax: Option<String>,
    file: String,
}

fn valueset_impls(repo: &str) -> Result<Vec<VsImpl>, String> {
    let mut out = vec![];
    for rel in valueset_files(repo)? {
        let ast = parse_file(repo, &rel)?;
        for it in &ast.items {
            let syn::Item::Impl(i) = it else { continue };
            let Some((_, p, _)) = &i.trait_ else { continue };
            if p.segments.last().map(|s| s.ident != "ValueSetT").unwrap_or(true) {
                continue;
            }
            let name = last_ident(&i.self_ty);
            let mut dbv = None;
            let mut syntax = None;
            for ii in &i.items {
                let syn::ImplItem::Fn(f) = ii else { continue };
                if f.sig.ident == "to_db_valueset_v2" {
                    let vs = variants_named(&paths_in_block(&f.block), "DbValueSetV2");
                    if vs.len() != 1 {
                        return Err(format!("{rel}: {name}::to_db_valueset_v2 names {vs:?} (expected one DbValueSetV2 constructor)"));
                    }
                    dbv = Some(vs[0].clone());
                }
                if f.sig.ident == "syntax" {
                    let vs = variants_named(&paths_in_block(&f.block), "SyntaxType");
                    if vs.len() > 1 {
                        return Err(format!("{rel}: {name}::syntax names {vs:?}"));
                    }
                    syntax = vs.first().cloned();
                }
            }
            let db_variant = dbv.ok_or_else(|| format!("{rel}: impl ValueSetT for {name} has no to_db_valueset_v2"))?;
            out.push(VsImpl { name, db_variant, syntax, file: rel.clone() });
        }
    }
    if out.is_empty() {
        return Err("no `impl ValueSetT for` found".into());
    }
    Ok(out)
}

struct EnumVariant {
    name: String,
    serde: String,
    aliases: Vec<String>,
    disc: Option<i128>,
}

fn serde_names(attrs: &[syn::Attribute], default: &str) -> Result<(String, Vec<String>), String> {
    let mut name = default.to_string();
    let mut aliases = vec![];
    for a in attrs {
        if !a.path().is_ident("serde") {
            continue;
        }
        a.parse_nested_meta(|m| {
            if m.path.is_ident("rename") {
                let v: syn::LitStr = m.value()?.parse()?;
                name = v.value();
            } else if m.path.is_ident("alias") {
                let v: syn::LitStr = m.value()?.parse()?;
                aliases.push(v.value());
            } else if m.input.peek(syn::Token![=]) {
                let _: syn::Expr = m.value()?.parse()?;
            }
            Ok(())
        })
        .map_err(|e| format!("serde attribute: {e}"))?;
    }
    Ok((name, aliases))
}

fn enum_variants(repo: &str, rel: &str, enum_name: &str) -> Result<Vec<EnumVariant>, String> {
    let ast = parse_file(repo, rel)?;
    for it in &ast.items {
        if let syn::Item::Enum(e) = it {
            if e.ident == enum_name {
                let mut out = vec![];
                for v in &e.variants {
                    let (serde, aliases) = serde_names(&v.attrs, &v.ident.to_string())?;
                    let disc = match &v.discriminant {
                        Some((_, ex)) => Some(eval_int(ex, &|_| None)?),
                        None => None,
                    };
                    out.push(EnumVariant { name: v.ident.to_string(), serde, aliases, disc });
                }
                return Ok(out);
            }
        }
    }
    Err(format!("{rel}: enum {enum_name} not found"))
}

/// `from_db_valueset_v2`: stored variant ↦ decoding struct (None = rejected) and the
/// constructor function of that struct the arm calls (`from_dbvs2` / `new`).
fn dispatch_decode(repo: &str) -> Result<Vec<(String, Option<String>, Option<String>)>, String> {
    let rel = "server/lib/src/valueset/mod.rs";
    let ast = parse_file(repo, rel)?;
    let f = find_fn(&ast, "from_db_valueset_v2")?;
    let m = the_match(all_matches_block(&f.block), "DbValueSetV2", "from_db_valueset_v2")?;
    let mut out = vec![];
    for a in &m.arms {
        if a.guard.is_some() {
            return Err(format!("from_db_valueset_v2: guard on `{}`", a.pat.to_token_stream()));
        }
        let mut structs: Vec<String> = vec![];
        let mut fns: Vec<String> = vec![];
        for s in paths_in_expr(&a.body) {
            if s.len() >= 2 && s[s.len() - 2].starts_with("ValueSet") && (s[s.len() - 1] == "from_dbvs2" || s[s.len() - 1] == "new") {
                let n = s[s.len() - 2].clone();
                if !structs.contains(&n) {
                    structs.push(n);
                }
                if !fns.contains(&s[s.len() - 1]) {
                    fns.push(s[s.len() - 1].clone());
                }
            }
        }
        if fns.len() > 1 {
            return Err(format!("from_db_valueset_v2: arm `{}` calls several constructors {fns:?}", a.pat.to_token_stream()));
        }
        let dst_fn = fns.first().cloned();
        let dst = match structs.len() {
            0 if looks_like_reject(&a.body) => None,
            1 => Some(structs[0].clone()),
            _ => {
                return Err(format!(
                    "from_db_valueset_v2: arm `{}` calls {structs:?} (expected one ValueSetX::from_dbvs2/new or an Err)",
                    a.pat.to_token_stream()
                ))
            }
        };
        for c in or_cases(&a.pat) {
            if is_catch_all(c) {
                return Err("from_db_valueset_v2: catch-all arm".into());
            }
            let v = pat_path(c)
                .and_then(|p| variant_of_path(p, "DbValueSetV2"))
                .ok_or_else(|| format!("from_db_valueset_v2: pattern `{}`", c.to_token_stream()))?;
            out.push((v, dst.clone(), dst_fn.clone()));
        }
    }
    Ok(out)
}

// ---------------------------------------------------------------------------------------

fn pair_specs() -> Vec<PairSpec> {
    const CRYPTO: &str = "libs/crypto/src/lib.rs";
    const CRED: &str = "server/lib/src/credential/mod.rs";
    const TOTP: &str = "server/lib/src/credential/totp.rs";
    const SESSION: &str = "server/lib/src/valueset/session.rs";
    const VCRED: &str = "server/lib/src/valueset/cred.rs";
    const KEYI: &str = "server/lib/src/valueset/key_internal.rs";
    const VALUE: &str = "server/lib/src/value.rs";
    let sess_enc = FnRef::Spec("ValueSetSession::to_vec_dbvs");
    let sess_dec = FnRef::Spec("ValueSetSession::from_dbv_iter");
    let o2_enc = FnRef::Spec("ValueSetT@ValueSetOauth2Session::to_db_valueset_v2");
    let o2_dec = FnRef::Spec("ValueSetOauth2Session::from_dbvs2");
    let api_enc = FnRef::Spec("ValueSetT@ValueSetApiTokenSet::to_db_valueset_v2");
    let api_dec = FnRef::Spec("ValueSetApiTokenSet::from_dbvs2");
    let key_enc = FnRef::Spec("ValueSetKeyInternal::to_vec_dbvs");
    let key_dec = FnRef::Spec("ValueSetKeyInternal::from_dbv_iter");
    let p = |name, mem_enum, db_enum, enc_file, enc_fn, dec_file, dec_fn, dec_within, slots| PairSpec {
        name, mem_enum, db_enum, enc_file, enc_fn, dec_file, dec_fn, dec_within, slots,
    };
    vec![
        p("password", "Kdf", "DbPasswordV1", CRYPTO, FnRef::Spec("Password::to_dbpasswordv1"), CRYPTO,
          FnRef::TraitArg { tr: "TryFrom", arg: "DbPasswordV1", ty: "Password", name: "try_from" }, None, true),
        p("credential-type", "CredentialType", "DbCred", CRED, FnRef::Spec("Credential::to_db_valuev1"), CRED,
          FnRef::TraitArg { tr: "TryFrom", arg: "DbCred", ty: "Credential", name: "try_from" }, None, false),
        p("totp-algo", "TotpAlgo", "DbTotpAlgoV1", TOTP, FnRef::Spec("Totp::to_dbtotpv1"), TOTP,
          FnRef::TraitArg { tr: "TryFrom", arg: "DbTotpV1", ty: "Totp", name: "try_from" }, None, false),
        p("session-state", "SessionState", "DbValueSessionStateV1", SESSION, sess_enc, SESSION, sess_dec, None, false),
        p("session-issued-by", "IdentityId", "DbValueIdentityId", SESSION, sess_enc, SESSION, sess_dec, None, false),
        p("session-scope", "SessionScope", "DbValueAccessScopeV1", SESSION, sess_enc, SESSION, sess_dec, None, false),
        p("session-auth-type", "AuthType", "DbValueAuthTypeV1", SESSION, sess_enc, SESSION, sess_dec, None, false),
        p("session-ext-metadata", "SessionExtMetadata", "DbValueSessionExtMetadataV1", SESSION, sess_enc, SESSION, sess_dec, None, false),
        p("oauth2session-state", "SessionState", "DbValueSessionStateV1", SESSION, o2_enc, SESSION, o2_dec,
          Some(("DbValueOauth2Session", "V3")), false),
        p("apitoken-issued-by", "IdentityId", "DbValueIdentityId", SESSION, api_enc, SESSION, api_dec, None, false),
        p("apitoken-scope", "ApiTokenScope", "DbValueApiTokenScopeV1", SESSION, api_enc, SESSION, api_dec, None, false),
        p("intent-token-state", "IntentTokenState", "DbValueIntentTokenStateV1", VCRED,
          FnRef::Spec("ValueSetT@ValueSetIntentToken::to_db_valueset_v2"), VCRED,
          FnRef::Spec("ValueSetIntentToken::from_dbvs2"), None, true),
        p("key-usage", "KeyUsage", "DbValueKeyUsage", KEYI, key_enc, KEYI, key_dec, None, false),
        p("key-status", "KeyStatus", "DbValueKeyStatus", KEYI, key_enc, KEYI, key_dec, None, false),
        p("oauth-claim-join", "OauthClaimMapJoin", "DbValueOauthClaimMapJoinV1", VALUE,
          FnRef::TraitArg { tr: "From", arg: "OauthClaimMapJoin", ty: "DbValueOauthClaimMapJoinV1", name: "from" }, VALUE,
          FnRef::TraitArg { tr: "From", arg: "DbValueOauthClaimMapJoinV1", ty: "OauthClaimMapJoin", name: "from" }, None, false),
        p("changestate", "State", "DbEntryChangeState", "server/lib/src/repl/entry.rs",
          FnRef::Spec("EntryChangeState::to_db_changestate"), "server/lib/src/repl/entry.rs",
          FnRef::Spec("EntryChangeState::from_db_changestate"), None, false),
        p("repl-state", "State", "ReplStateV1", "server/lib/src/repl/proto.rs", FnRef::Spec("ReplEntryV1::new"),
          "server/lib/src/repl/proto.rs", FnRef::Spec("ReplEntryV1::rehydrate"), None, false),
        p("repl-incr-state", "State", "ReplStateV1", "server/lib/src/repl/proto.rs",
          FnRef::Spec("ReplIncrementalEntryV1::new"), "server/lib/src/repl/proto.rs",
          FnRef::Spec("ReplIncrementalEntryV1::rehydrate"), None, false),
    ]
}

/// Version pair: the encoder writes exactly one `Enum::Vn`; the decoder's match over `Enum`
/// accepts (arm is not a bare `None`/`Err(..)`) or rejects each version.
fn version_pair(repo: &str, name: &str, enum_name: &str, file: &str, enc_fn: FnRef, dec_fn: FnRef) -> Result<TagPair, String> {
    let eb = get_block(repo, file, enc_fn)?;
    let written = variants_named(&paths_in_block(&eb), enum_name);
    if written.len() != 1 {
        return Err(format!("{name}: encoder {} writes {written:?} (expected one {enum_name} version)", fnref_name(enc_fn)));
    }
    let db = get_block(repo, file, dec_fn)?;
    let m = the_match(all_matches_block(&db), enum_name, &format!("{name}: {}", fnref_name(dec_fn)))?;
    let mut db_names = vec![];
    let mut dec = vec![];
    for a in &m.arms {
        if a.guard.is_some() {
            return Err(format!("{name}: guard"));
        }
        let body = a.body.to_token_stream().to_string();
        let reject = body == "None" || body.starts_with("Err (") || body.starts_with("Err(");
        for c in or_cases(&a.pat) {
            let v = pat_path(c)
                .and_then(|p| variant_of_path(p, enum_name))
                .ok_or_else(|| format!("{name}: pattern `{}`", c.to_token_stream()))?;
            let i = idx_of(&mut db_names, &v);
            dec.push((i, if reject { None } else { Some(0) }, false));
        }
    }
    let wi = db_names
        .iter()
        .position(|x| *x == written[0])
        .ok_or_else(|| format!("{name}: decoder has no arm for the written version {}", written[0]))?;
    Ok(TagPair {
        name: name.to_string(),
        mem_enum: "current".into(),
        db_enum: enum_name.to_string(),
        mem_names: vec!["current".into()],
        db_names,
        db_serde: vec![],
        enc: vec![(0, wi)],
        dec,
        src: format!("{file}: {} / {}", fnref_name(enc_fn), fnref_name(dec_fn)),
    })
}

fn tables(repo: &str, out: &str) -> Result<String, String> {
    let mut pairs: Vec<TagPair> = vec![];
    let mut recs: Vec<RecPair> = vec![];
    for s in pair_specs() {
        let eb = get_block(repo, s.enc_file, s.enc_fn)?;
        let ectx = format!("{} ({})", s.name, fnref_name(s.enc_fn));
        let em = the_match(all_matches_block(&eb), s.mem_enum, &ectx)?;
        let db = get_block(repo, s.dec_file, s.dec_fn)?;
        let dctx = format!("{} ({})", s.name, fnref_name(s.dec_fn));
        let dms = match s.dec_within {
            Some((en, va)) => {
                // the encoder must write that very version
                let written = variants_named(&paths_in_block(&eb), en);
                if written != vec![va.to_string()] {
                    return Err(format!("{ectx}: writes {en} versions {written:?}, decoder table was read from {va}"));
                }
                all_matches_expr(&arm_body_of(&db, en, va, &dctx)?)
            }
            None => all_matches_block(&db),
        };
        let dm = the_match(dms, s.db_enum, &dctx)?;
        let ec = analyse_match(&em, s.mem_enum, s.db_enum, &ectx)?;
        let dc = analyse_match(&dm, s.db_enum, s.mem_enum, &dctx)?;
        let tp = build_pair(
            s.name,
            s.mem_enum,
            s.db_enum,
            &ec,
            &dc,
            format!("{}: {} / {}: {}", s.enc_file, fnref_name(s.enc_fn), s.dec_file, fnref_name(s.dec_fn)),
        )?;
        if s.slots {
            let ea = slot_arms(&em, s.mem_enum, s.db_enum, &ectx)?;
            let da = slot_arms(&dm, s.db_enum, s.mem_enum, &dctx)?;
            recs.push(build_rec(s.name, &tp, &ea, &da)?);
        }
        pairs.push(tp);
    }
    const SESSION: &str = "server/lib/src/valueset/session.rs";
    pairs.push(version_pair(
        repo,
        "session-version",
        "DbValueSession",
        SESSION,
        FnRef::Spec("ValueSetSession::to_vec_dbvs"),
        FnRef::Spec("ValueSetSession::from_dbv_iter"),
    )?);
    pairs.push(version_pair(
        repo,
        "oauth2session-version",
        "DbValueOauth2Session",
        SESSION,
        FnRef::Spec("ValueSetT@ValueSetOauth2Session::to_db_valueset_v2"),
        FnRef::Spec("ValueSetOauth2Session::from_dbvs2"),
    )?);

    for p in pairs.iter_mut() {
        fill_serde(repo, p)?;
    }

    // ---- dispatch ----
    let impls = valueset_impls(repo)?;
    let dbvars = enum_variants(repo, "server/lib/src/be/dbvalue.rs", "DbValueSetV2")?;
    let syntaxes = enum_variants(repo, "server/lib/src/value.rs", "SyntaxType")?;
    let decode = dispatch_decode(repo)?;
    let struct_names: Vec<String> = impls.iter().map(|i| i.name.clone()).collect();
    let db_names: Vec<String> = dbvars.iter().map(|v| v.name.clone()).collect();
    let mut enc = vec![];
    for (i, im) in impls.iter().enumerate() {
        let d = db_names
            .iter()
            .position(|x| *x == im.db_variant)
            .ok_or_else(|| format!("{}: {} builds unknown DbValueSetV2::{}", im.file, im.name, im.db_variant))?;
        enc.push((i, d));
    }
    let mut dec = vec![];
    for (d, dn) in db_names.iter().enumerate() {
        let (_, z, _) = decode
            .iter()
            .find(|(v, _, _)| v == dn)
            .ok_or_else(|| format!("from_db_valueset_v2 has no arm for DbValueSetV2::{dn}"))?;
        let zi = match z {
            Some(z) => Some(
                struct_names
                    .iter()
                    .position(|x| x == z)
                    .ok_or_else(|| format!("from_db_valueset_v2: {z} has no `impl ValueSetT`"))?,
            ),
            None => None,
        };
        dec.push((d, zi, false));
    }
    let dispatch = TagPair {
        name: "valueset-dispatch".into(),
        mem_enum: "ValueSetT impl".into(),
        db_enum: "DbValueSetV2".into(),
        mem_names: struct_names.clone(),
        db_names: db_names.clone(),
        db_serde: dbvars.iter().map(|v| v.serde.clone()).collect(),
        enc,
        dec,
        src: "server/lib/src/valueset/*.rs: to_db_valueset_v2 / valueset/mod.rs: from_db_valueset_v2".into(),
    };
    // serde names of the stored constructors, interned (equal strings ⇔ equal ids); aliases count
    let mut intern: BTreeMap<String, usize> = BTreeMap::new();
    let mut key_ids: Vec<Vec<usize>> = vec![];
    for v in &dbvars {
        let mut ids = vec![];
        for n in std::iter::once(&v.serde).chain(v.aliases.iter()) {
            let next = intern.len();
            ids.push(*intern.entry(n.clone()).or_insert(next));
        }
        key_ids.push(ids);
    }
    let mut struct_syntax = vec![];
    for im in &impls {
        let id = match &im.syntax {
            Some(s) => {
                let v = syntaxes
                    .iter()
                    .find(|x| x.name == *s)
                    .ok_or_else(|| format!("{}: {}::syntax returns unknown SyntaxType::{s}", im.file, im.name))?;
                Some(v.disc.ok_or_else(|| format!("SyntaxType::{s} has no explicit discriminant"))? as usize)
            }
            None => None,
        };
        struct_syntax.push(id);
    }

    // ---- how every decoder builds its struct: fields of the struct vs fields rebuilt ----
    let mut decode_ctors: Vec<(usize, decode_ctor::DecodeCtor)> = vec![];
    for (si, im) in impls.iter().enumerate() {
        let mut fns: Vec<String> = decode.iter().filter(|(_, z, _)| z.as_deref() == Some(im.name.as_str())).filter_map(|(_, _, f)| f.clone()).collect();
        fns.sort();
        fns.dedup();
        if fns.is_empty() {
            return Err(format!("{}: no arm of from_db_valueset_v2 decodes into {}", im.file, im.name));
        }
        let ast = parse_file(repo, &im.file)?;
        for f in fns {
            decode_ctors.push((si, decode_ctor::analyse(&ast, &im.file, &im.name, &f)?));
        }
    }

    // ---- time codec of the queued message's expiry (D24) ----
    let msg_unit = message_expiry_unit(repo)?;

    // ---- print ----
    let mut body = String::from("import KanidmModel.StoreCodecTypes\nset_option linter.unusedVariables false\nnamespace Kanidm.Gen.StoreCodec\nopen Kanidm.StoreCodec\n\n");
    for p in pairs.iter().chain(std::iter::once(&dispatch)) {
        body += &format!("/-- {} -/\ndef {} : TagPair :=\n{}\n\n", p.src, lean_ident(&p.name), lean_tagpair(p));
        for (d, _, partial) in &p.dec {
            if *partial {
                body += &format!("-- note: the decoder arm for {}::{} has a refutable sub-pattern (covers part of the variant)\n", p.db_enum, p.db_names[*d]);
            }
        }
    }
    body += &format!(
        "/-- every enum-coded field conversion and version table (the valueset dispatch is separate) -/\ndef pairs : List TagPair := [{}]\n\n",
        pairs.iter().map(|p| lean_ident(&p.name)).collect::<Vec<_>>().join(", ")
    );
    for r in &recs {
        body += &format!("def {}Rec : RecPair :=\n  {}\n\n", lean_ident(&r.name), lean_recpair(r));
    }
    body += &format!(
        "/-- serde names of `DbValueSetV2`'s constructors (rename + aliases), in declaration order -/\ndef dbSerdeKeys : List String := {}\n",
        lean_str_list(&dbvars.iter().map(|v| v.serde.clone()).collect::<Vec<_>>())
    );
    body += &format!(
        "/-- the same names interned by the translator: equal strings ⇔ equal numbers -/\ndef dbSerdeKeyIds : List Nat := {}\n",
        lean_nat_list(&key_ids.iter().flatten().cloned().collect::<Vec<_>>())
    );
    body += &format!(
        "/-- `ValueSetX::syntax()` as the `SyntaxType` discriminant (`none`: `unreachable!()`) -/\ndef structSyntax : List (Option Nat) := [{}]\n",
        struct_syntax.iter().map(|o| lean_opt(*o)).collect::<Vec<_>>().join(", ")
    );
    body += &format!(
        "def syntaxNames : List (Nat × String) := [{}]\n",
        syntaxes
            .iter()
            .map(|v| format!("({}, \"{}\")", v.disc.unwrap_or(-1), v.name))
            .collect::<Vec<_>>()
            .join(", ")
    );
    body += &format!(
        "/-- `OutboundMessage::CredentialResetV1.expiry_time` is stored with `#[serde(with = \"{}\")]`: an integer count of units of this many nanoseconds -/\ndef messageExpiryCodec : TimeCodec := {{ unitNs := {} }}\n",
        msg_unit.0, msg_unit.1
    );
    body += &format!(
        "/-- How each decoder reached from `from_db_valueset_v2` builds its struct: through a canonical in-memory constructor\n(`via`), or by struct literals — then, for every field of `pub struct ValueSetX {{ … }}`, where its value comes from\n(kind 0 direct from the stored data, 1 a `let mut` accumulator with the arms of the `match` that update it, 2 a constant). -/\ndef decodeCtors : List DecodeCtor := [\n  {}]\n",
        decode_ctors.iter().map(|(si, c)| decode_ctor::lean_ctor(c, *si)).collect::<Vec<_>>().join(",\n  ")
    );
    body += "end Kanidm.Gen.StoreCodec\n";
    let path = format!("{out}/StoreCodecTables.lean");
    let text = format!(
        "-- GENERATED by vtranslate from libs/crypto/src/lib.rs, server/lib/src/{{credential,valueset,value.rs,be/dbvalue.rs}} (variant→variant conversion arms). Do not edit: rewritten on every check run.\n{body}"
    );
    if !std::fs::read_to_string(&path).map(|old| old == text).unwrap_or(false) {
        std::fs::write(&path, text).map_err(|e| format!("{path}: {e}"))?;
    }
    Ok(format!(
        "StoreCodecTables: {} tag pairs ({} arms), {} record pairs, dispatch {} structs x {} stored constructors, {} decoders ({} struct literals, {} accumulator fields)",
        pairs.len(),
        pairs.iter().map(|p| p.enc.len() + p.dec.len()).sum::<usize>(),
        recs.len(),
        struct_names.len(),
        db_names.len(),
        decode_ctors.len(),
        decode_ctors.iter().map(|(_, c)| c.literals.len()).sum::<usize>(),
        decode_ctors.iter().flat_map(|(_, c)| c.literals.iter().flatten()).filter(|f| matches!(f.init, decode_ctor::Init::Acc { .. })).count()
    ))
}

/// The `#[serde(with = "…")]` module on `OutboundMessage::CredentialResetV1.expiry_time`
/// ↦ nanoseconds per stored unit.
fn message_expiry_unit(repo: &str) -> Result<(String, u64), String> {
    let rel = "proto/src/v1/message.rs";
    let ast = parse_file(repo, rel)?;
    for it in &ast.items {
        let syn::Item::Enum(e) = it else { continue };
        if e.ident != "OutboundMessage" {
            continue;
        }
        for v in &e.variants {
            if v.ident != "CredentialResetV1" {
                continue;
            }
            for f in v.fields.iter() {
                if f.ident.as_ref().map(|i| i == "expiry_time").unwrap_or(false) {
                    let mut with = None;
                    for a in &f.attrs {
                        if !a.path().is_ident("serde") {
                            continue;
                        }
                        a.parse_nested_meta(|m| {
                            if m.path.is_ident("with") {
                                let v: syn::LitStr = m.value()?.parse()?;
                                with = Some(v.value());
                            } else if m.input.peek(syn::Token![=]) {
                                let _: syn::Expr = m.value()?.parse()?;
                            }
                            Ok(())
                        })
                        .map_err(|e| format!("{rel}: serde attribute: {e}"))?;
                    }
                    let w = with.ok_or_else(|| format!("{rel}: expiry_time has no #[serde(with = ..)] (default OffsetDateTime form: extend the translator)"))?;
                    let unit = match w.as_str() {
                        "time::serde::timestamp" => 1_000_000_000u64,
                        "time::serde::timestamp::milliseconds" => 1_000_000,
                        "time::serde::timestamp::microseconds" => 1_000,
                        "time::serde::timestamp::nanoseconds" | "time::serde::rfc3339" | "time::serde::iso8601" => 1,
                        other => return Err(format!("{rel}: unknown time codec `{other}` on expiry_time")),
                    };
                    return Ok((w, unit));
                }
            }
        }
    }
    Err(format!("{rel}: OutboundMessage::CredentialResetV1.expiry_time not found"))
}

fn lean_ident(name: &str) -> String {
    let mut out = String::new();
    let mut up = false;
    for c in name.chars() {
        if c == '-' {
            up = true;
        } else if up {
            out.extend(c.to_uppercase());
            up = false;
        } else {
            out.push(c);
        }
    }
    out
}
