//! C07 translator items: the lamport step of `Cid::new_lamport`, the derived ordering of
//! `struct Cid`, the order of persistence steps inside `QueryServerWriteTransaction::commit`,
//! and where `QueryServer::new` / `QueryServer::write` take the previous maximum from.
use crate::util::*;
use quote::ToTokens;
use syn::{Expr, Stmt};

pub fn run(item: &str, repo: &str, out: &str) -> Option<Result<String, String>> {
    match item {
        "cid-ops" => Some(cid_ops(repo, out)),
        "cid-commit-order" => Some(cid_commit_order(repo, out)),
        _ => None,
    }
}

fn toks<T: ToTokens>(t: &T) -> String {
    t.to_token_stream().to_string()
}

/// Duration-valued expression over `ts` / `max_ts` rendered as a Lean `Nat` term (nanoseconds).
fn dur_expr(e: &Expr) -> Result<String, String> {
    match e {
        Expr::Paren(p) => dur_expr(&p.expr),
        Expr::Group(g) => dur_expr(&g.expr),
        Expr::Unary(u) if matches!(u.op, syn::UnOp::Deref(_)) => dur_expr(&u.expr),
        Expr::Path(_) => match path_string(e).as_deref() {
            Some("ts") => Ok("ts".into()),
            Some("max_ts") => Ok("max".into()),
            other => Err(format!("unknown leaf {other:?} in `{}`", toks(e))),
        },
        Expr::Binary(b) => {
            let l = dur_expr(&b.left)?;
            let r = dur_expr(&b.right)?;
            match b.op {
                syn::BinOp::Add(_) => Ok(format!("({l} + {r})")),
                syn::BinOp::Sub(_) => Ok(format!("({l} - {r})")),
                _ => Err(format!("unsupported operator in `{}`", toks(e))),
            }
        }
        Expr::Call(c) => {
            let f = path_string(&c.func).unwrap_or_default();
            if c.args.len() != 1 {
                return Err(format!("unsupported call `{}`", toks(e)));
            }
            let n = eval_int(&c.args[0], &|_| None)?;
            if n < 0 {
                return Err(format!("negative duration in `{}`", toks(e)));
            }
            if f.ends_with("Duration::from_nanos") {
                Ok(format!("{n}"))
            } else if f.ends_with("Duration::from_micros") {
                Ok(format!("{}", n * 1_000))
            } else if f.ends_with("Duration::from_millis") {
                Ok(format!("{}", n * 1_000_000))
            } else if f.ends_with("Duration::from_secs") {
                Ok(format!("{}", n * 1_000_000_000))
            } else {
                Err(format!("unsupported call `{}`", toks(e)))
            }
        }
        _ => Err(format!("unrecognised duration expression `{}`", toks(e))),
    }
}

fn single_expr(b: &syn::Block) -> Result<&Expr, String> {
    match b.stmts.as_slice() {
        [Stmt::Expr(e, None)] => Ok(e),
        _ => Err(format!("expected a single-expression block, found `{}`", toks(b))),
    }
}

/// `Cid::new_lamport` and the derived `Ord` of `struct Cid`.
fn cid_ops(repo: &str, out: &str) -> Result<String, String> {
    let rel = "server/lib/src/repl/cid.rs";
    let ast = parse_file(repo, rel)?;
    // --- new_lamport -----------------------------------------------------------------
    let f = find_fn(&ast, "Cid::new_lamport")?;
    let params: Vec<String> = f.sig.inputs.iter().map(|a| toks(a)).collect();
    if params != ["s_uuid : Uuid", "ts : Duration", "max_ts : & Duration"] {
        return Err(format!("new_lamport: unexpected parameters {params:?}"));
    }
    if f.block.stmts.len() != 2 {
        return Err(format!("new_lamport: expected `let ts = if ..;` + struct literal, found {} statements", f.block.stmts.len()));
    }
    let (cond, then_e, else_e) = match &f.block.stmts[0] {
        Stmt::Local(l) => {
            if toks(&l.pat) != "ts" {
                return Err(format!("new_lamport: expected `let ts = ..`, found `let {}`", toks(&l.pat)));
            }
            let init = l.init.as_ref().ok_or("new_lamport: let without initialiser")?;
            match &*init.expr {
                Expr::If(i) => {
                    let else_b = match i.else_branch.as_ref().map(|(_, e)| &**e) {
                        Some(Expr::Block(b)) => &b.block,
                        _ => return Err("new_lamport: if without plain else block".into()),
                    };
                    ((*i.cond).clone(), single_expr(&i.then_branch)?.clone(), single_expr(else_b)?.clone())
                }
                o => return Err(format!("new_lamport: initialiser is not an if: `{}`", toks(o))),
            }
        }
        o => return Err(format!("new_lamport: first statement is not a let: `{}`", toks(o))),
    };
    match &f.block.stmts[1] {
        Stmt::Expr(e, None) if toks(e) == "Cid { ts , s_uuid }" => {}
        o => return Err(format!("new_lamport: result is not `Cid {{ ts, s_uuid }}`: `{}`", toks(o))),
    }
    let (op, l, r) = match &cond {
        Expr::Binary(b) => {
            let op = match b.op {
                syn::BinOp::Gt(_) => ">",
                syn::BinOp::Ge(_) => "≥",
                syn::BinOp::Lt(_) => "<",
                syn::BinOp::Le(_) => "≤",
                syn::BinOp::Eq(_) => "=",
                syn::BinOp::Ne(_) => "≠",
                _ => return Err(format!("new_lamport: condition is not a comparison: `{}`", toks(&cond))),
            };
            (op, dur_expr(&b.left)?, dur_expr(&b.right)?)
        }
        _ => return Err(format!("new_lamport: condition is not a comparison: `{}`", toks(&cond))),
    };
    let then_s = dur_expr(&then_e)?;
    let else_s = dur_expr(&else_e)?;
    // --- struct Cid + derived Ord ----------------------------------------------------
    let mut fields: Option<Vec<(String, String)>> = None;
    let mut derives = String::new();
    for it in &ast.items {
        match it {
            syn::Item::Struct(s) if s.ident == "Cid" => {
                for a in &s.attrs {
                    if a.path().is_ident("derive") {
                        derives += &toks(&a.meta);
                    }
                }
                fields = Some(
                    s.fields
                        .iter()
                        .map(|f| (f.ident.as_ref().map(|i| i.to_string()).unwrap_or_default(), toks(&f.ty)))
                        .collect(),
                );
            }
            syn::Item::Impl(i) => {
                if let Some((_, p, _)) = &i.trait_ {
                    let tr = p.segments.last().map(|s| s.ident.to_string()).unwrap_or_default();
                    if (tr == "Ord" || tr == "PartialOrd" || tr == "PartialEq") && toks(&i.self_ty) == "Cid" {
                        return Err(format!("struct Cid has a hand-written `impl {tr}`; the derived field-order model no longer applies"));
                    }
                }
            }
            _ => {}
        }
    }
    let fields = fields.ok_or("struct Cid not found")?;
    for d in ["PartialEq", "Eq", "PartialOrd", "Ord"] {
        if !derives.split(|c: char| !c.is_alphanumeric()).any(|w| w == d) {
            return Err(format!("struct Cid does not derive {d} (derives: {derives})"));
        }
    }
    let mut lean_fields = vec![];
    for (n, t) in &fields {
        match (n.as_str(), t.as_str()) {
            ("ts", "Duration") => lean_fields.push(".ts"),
            ("s_uuid", "Uuid") => lean_fields.push(".sUuid"),
            _ => return Err(format!("struct Cid: unexpected field `{n}: {t}`")),
        }
    }
    if lean_fields.len() != 2 {
        return Err(format!("struct Cid: expected fields ts and s_uuid, found {fields:?}"));
    }
    let body = format!(
        "namespace Kanidm.Gen.Cid\n\
         /-- `{}` (operands in nanoseconds) -/\n\
         def keepTs (ts max : Nat) : Bool := decide ({l} {op} {r})\n\
         /-- `let ts = if {} {{ {} }} else {{ {} }};` -/\n\
         def lamportTs (ts max : Nat) : Nat := if keepTs ts max then {then_s} else {else_s}\n\
         /-- fields of `struct Cid` in declaration order; `#[derive(PartialOrd, Ord)]` compares in this order -/\n\
         inductive Field where\n  | ts\n  | sUuid\nderiving DecidableEq, Repr\n\
         def ordFields : List Field := [{}]\n\
         end Kanidm.Gen.Cid\n",
        toks(&cond),
        toks(&cond),
        toks(&then_e),
        toks(&else_e),
        lean_fields.join(", ")
    );
    write_generated(out, "CidOps", &format!("{rel} (fn Cid::new_lamport, struct Cid)"), &body)?;
    Ok(format!("CidOps: keep `{}`; else `{}`; ord fields {:?}", toks(&cond), toks(&else_e), lean_fields))
}

#[derive(Debug)]
struct CStep {
    kind: &'static str,
    fallible: bool,
    src: String,
}

/// Is `e` the method call `recv.method(args)` with a plain-path receiver?
fn method_on<'a>(e: &'a Expr, recv: &str, method: &str) -> Option<&'a syn::ExprMethodCall> {
    if let Expr::MethodCall(m) = e {
        if m.method == method && path_string(&m.receiver).as_deref() == Some(recv) {
            return Some(m);
        }
    }
    None
}

fn classify_call(e: &Expr, fallible: bool) -> Result<Option<CStep>, String> {
    let src = toks(e);
    if let Some(m) = method_on(e, "be_txn", "set_db_ts_max") {
        let args: Vec<String> = m.args.iter().map(|a| toks(a)).collect();
        if args != ["cid . ts"] {
            return Err(format!("set_db_ts_max is called with {args:?}, expected the transaction's `cid.ts`"));
        }
        return Ok(Some(CStep { kind: "persistTsMax", fallible, src }));
    }
    if method_on(e, "cid", "commit").is_some() {
        return Ok(Some(CStep { kind: "cidCommit", fallible, src }));
    }
    if method_on(e, "be_txn", "commit").is_some() {
        return Ok(Some(CStep { kind: "beCommit", fallible, src }));
    }
    if src.contains("set_db_ts_max") || src.contains("be_txn . commit") || src.contains("cid . commit") {
        return Err(format!("unrecognised shape around a persistence step: `{src}`"));
    }
    if fallible {
        return Ok(Some(CStep { kind: "other", fallible, src }));
    }
    Ok(None)
}

/// Flatten `a.map(|_| b).and_then(|_| c)` into [(a, fallible), (b, false), (c, true)].
fn flatten_chain(e: &Expr, acc: &mut Vec<(Expr, bool)>) -> Result<(), String> {
    if let Expr::MethodCall(m) = e {
        let name = m.method.to_string();
        if (name == "map" || name == "and_then") && m.args.len() == 1 {
            flatten_chain(&m.receiver, acc)?;
            match &m.args[0] {
                Expr::Closure(c) => {
                    if c.inputs.len() != 1 || toks(&c.inputs[0]) != "_" {
                        return Err(format!("commit chain closure takes `{}`", toks(&c.inputs[0])));
                    }
                    acc.push(((*c.body).clone(), name == "and_then"));
                    return Ok(());
                }
                o => return Err(format!("commit chain argument is not a closure: `{}`", toks(o))),
            }
        }
    }
    // head of the chain: a Result-valued call
    acc.push((e.clone(), true));
    Ok(())
}

/// Order of `set_db_ts_max`, the in-memory `cid.commit()` and the backend commit inside
/// `QueryServerWriteTransaction::commit`; plus where `QueryServer::new` and `::write` take the
/// previous maximum from.
fn cid_commit_order(repo: &str, out: &str) -> Result<String, String> {
    let rel = "server/lib/src/server/mod.rs";
    let ast = parse_file(repo, rel)?;
    let f = find_fn(&ast, "QueryServerWriteTransaction::commit")?;
    let mut steps: Vec<CStep> = vec![];
    let n = f.block.stmts.len();
    for (i, st) in f.block.stmts.iter().enumerate() {
        match st {
            Stmt::Local(l) => {
                // the destructuring `let QueryServerWriteTransaction { .. } = self;`
                let s = toks(l);
                if s.contains("set_db_ts_max") || s.contains(". commit (") {
                    return Err(format!("persistence step hidden in a let: `{s}`"));
                }
            }
            Stmt::Macro(_) | Stmt::Item(_) => {}
            Stmt::Expr(e, semi) => {
                let is_tail = i + 1 == n && semi.is_none();
                if is_tail {
                    let mut chain = vec![];
                    flatten_chain(e, &mut chain)?;
                    for (c, fallible) in chain {
                        if let Some(s) = classify_call(&c, fallible)? {
                            steps.push(s);
                        }
                    }
                    continue;
                }
                match e {
                    Expr::Try(t) => {
                        if let Some(s) = classify_call(&t.expr, true)? {
                            steps.push(s);
                        }
                    }
                    Expr::MethodCall(_) => {
                        if let Some(s) = classify_call(e, false)? {
                            steps.push(s);
                        }
                    }
                    Expr::If(_) | Expr::Macro(_) => {
                        let s = toks(e);
                        if s.contains("set_db_ts_max") || s.contains("be_txn . commit") || s.contains("cid . commit") {
                            return Err(format!("persistence step under a condition: `{s}`"));
                        }
                        if s.contains('?') || s.contains("return") {
                            return Err(format!("early exit under a condition: `{s}`"));
                        }
                    }
                    o => return Err(format!("unrecognised statement in commit: `{}`", toks(o))),
                }
            }
        }
    }
    for k in ["persistTsMax", "cidCommit", "beCommit"] {
        let c = steps.iter().filter(|s| s.kind == k).count();
        if c != 1 {
            return Err(format!("expected exactly one {k} step in commit, found {c}: {steps:?}"));
        }
    }
    // --- seeds: QueryServer::new and QueryServer::write --------------------------------
    let newf = find_fn(&ast, "QueryServer::new")?;
    let new_src = toks(&newf.block);
    let seed_new = if new_src.contains("let ts_max = wr . get_db_ts_max (curtime) ? ;")
        && new_src.contains("let cid = Cid :: new_lamport (s_uuid , curtime , & ts_max) ;")
        && new_src.contains("let cid_max = Arc :: new (CowCell :: new (cid)) ;")
    {
        ".persisted"
    } else {
        return Err("QueryServer::new: expected `let ts_max = wr.get_db_ts_max(curtime)?;` … `let cid = Cid::new_lamport(s_uuid, curtime, &ts_max);` `let cid_max = Arc::new(CowCell::new(cid));`".into());
    };
    let wf = find_fn(&ast, "QueryServer::write")?;
    let w_src = toks(&wf.block);
    let seed_write = if w_src.contains("let mut cid = self . cid_max . write () ;")
        && w_src.contains("* cid = Cid :: new_lamport (cid . s_uuid , curtime , & cid . ts) ;")
    {
        ".committedMax"
    } else {
        return Err("QueryServer::write: expected `let mut cid = self.cid_max.write();` `*cid = Cid::new_lamport(cid.s_uuid, curtime, &cid.ts);`".into());
    };
    // --- get_db_ts_max: Some(dts) => dts, None => ts -----------------------------------
    let be = parse_file(repo, "server/lib/src/be/mod.rs")?;
    let g = find_fn(&be, "BackendWriteTransaction::get_db_ts_max")?;
    let g_src = toks(&g.block);
    if !(g_src.contains("Some (dts) => Ok (dts)") && g_src.contains("None => Ok (ts)")) {
        return Err(format!("get_db_ts_max: expected `Some(dts) => Ok(dts), None => Ok(ts)`, found `{g_src}`"));
    }
    let mut body = String::from(
        "namespace Kanidm.Gen.CidCommit\n\
         inductive StepKind where\n  | persistTsMax\n  | cidCommit\n  | beCommit\n  | other\nderiving DecidableEq, Repr\n\
         structure CStep where\n  kind : StepKind\n  fallible : Bool\nderiving DecidableEq, Repr\n\
         /-- The persistence-relevant and the fallible steps of `QueryServerWriteTransaction::commit`, in\n\
         source order (a failing fallible step returns `Err` and skips every later step). -/\n\
         def commitSteps : List CStep := [\n",
    );
    for (i, s) in steps.iter().enumerate() {
        body += &format!(
            "  ⟨.{}, {}⟩{} -- `{}`\n",
            s.kind,
            s.fallible,
            if i + 1 == steps.len() { "" } else { "," },
            s.src.chars().take(90).collect::<String>()
        );
    }
    body += "]\n";
    body += "/-- Where a previous maximum is taken from. -/\ninductive MaxSrc where\n  | persisted\n  | committedMax\n  | curtime\nderiving DecidableEq, Repr\n";
    body += &format!("/-- `QueryServer::new`: `Cid::new_lamport(s_uuid, curtime, &ts_max)` with `ts_max = get_db_ts_max(curtime)` -/\ndef seedAtStart : MaxSrc := {seed_new}\n");
    body += &format!("/-- `QueryServer::write`: `*cid = Cid::new_lamport(cid.s_uuid, curtime, &cid.ts)` on `self.cid_max.write()` -/\ndef seedAtWrite : MaxSrc := {seed_write}\n");
    body += "end Kanidm.Gen.CidCommit\n";
    write_generated(out, "CidCommit", &format!("{rel} (fns QueryServerWriteTransaction::commit, QueryServer::new, QueryServer::write), server/lib/src/be/mod.rs (fn get_db_ts_max)"), &body)?;
    Ok(format!(
        "CidCommit: steps [{}]",
        steps.iter().map(|s| format!("{}{}", s.kind, if s.fallible { "?" } else { "" })).collect::<Vec<_>>().join(", ")
    ))
}
