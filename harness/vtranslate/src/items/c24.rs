//! C24 translator item `access-protected` (DESIGN §4.1 `Gen.Protected`).
//!
//! Regenerates, as Lean data in `KanidmModel/Generated/AccessProtected.lean`:
//!  * the wire names of every `EntryClass` / `Attribute` unit variant (variant → const → literal,
//!    `constants/entries.rs`, `proto/src/attribute.rs`, `proto/src/constants.rs`); the position
//!    in the list is the atom the model uses,
//!  * the five class tables of `access/protected.rs` and the two of `access/migration.rs`,
//!  * the per-class constraint table of `modify_protected_entry_attrs` (its LOCKED pre-check and
//!    its "empty ⇒ Deny" tail are shape-checked token by token),
//!  * the per-class table of `migration_entry_attrs`,
//!  * the sync constrain base set of `modify_sync_constrain`,
//!  * the uuid comparison + class table used by the protected gate of modify / create / delete,
//!  * which tables `apply_modify_access` / `apply_create_access` strip from the allowed classes,
//!  * the `access_scope()` → deny table of the three user gates,
//!  * the origin → result table of `modify_ident_test`,
//!  * the inline allow sets of the AccountRequest / MessageQueue create rules,
//!  * `UUID_ANONYMOUS` and the four internal role uuids.
//! Anything not recognised is an error, never a guess.
use crate::util::*;
use quote::ToTokens;
use std::collections::BTreeMap;
use syn::punctuated::Punctuated;
use syn::visit::Visit;

pub fn run(item: &str, repo: &str, out: &str) -> Option<Result<String, String>> {
    match item {
        "access-protected" => Some(access_protected(repo, out)),
        _ => None,
    }
}

fn toks<T: ToTokens>(t: &T) -> String {
    t.to_token_stream().to_string()
}

fn find_enum(file: &syn::File, name: &str) -> Result<syn::ItemEnum, String> {
    struct V<'a>(&'a str, Option<syn::ItemEnum>);
    impl<'a, 'ast> Visit<'ast> for V<'a> {
        fn visit_item_enum(&mut self, e: &'ast syn::ItemEnum) {
            if e.ident == self.0 {
                self.1 = Some(e.clone());
            }
        }
    }
    let mut v = V(name, None);
    v.visit_file(file);
    v.1.ok_or_else(|| format!("enum {name} not found"))
}

fn find_static(file: &syn::File, name: &str) -> Result<syn::ItemStatic, String> {
    struct V<'a>(&'a str, Option<syn::ItemStatic>);
    impl<'a, 'ast> Visit<'ast> for V<'a> {
        fn visit_item_static(&mut self, e: &'ast syn::ItemStatic) {
            if e.ident == self.0 {
                self.1 = Some(e.clone());
            }
        }
    }
    let mut v = V(name, None);
    v.visit_file(file);
    v.1.ok_or_else(|| format!("static {name} not found"))
}

/// Unit variants without a `cfg` attribute, in declaration order.
fn unit_variants(e: &syn::ItemEnum) -> Vec<String> {
    e.variants
        .iter()
        .filter(|v| matches!(v.fields, syn::Fields::Unit))
        .filter(|v| !v.attrs.iter().any(|a| a.path().is_ident("cfg")))
        .map(|v| v.ident.to_string())
        .collect()
}

/// `match self/val { Enum::Variant => CONST, … }` ↦ variant → const ident (cfg-gated arms skipped).
fn variant_const_arms(f: &FoundFn, enum_name: &str) -> Result<BTreeMap<String, String>, String> {
    struct V(Vec<syn::ExprMatch>);
    impl<'ast> Visit<'ast> for V {
        fn visit_expr_match(&mut self, m: &'ast syn::ExprMatch) {
            self.0.push(m.clone());
            syn::visit::visit_expr_match(self, m);
        }
    }
    let mut v = V(vec![]);
    v.visit_block(&f.block);
    if v.0.len() != 1 {
        return Err(format!("expected exactly one match in the {enum_name} name function, found {}", v.0.len()));
    }
    let mut out = BTreeMap::new();
    for arm in &v.0[0].arms {
        if arm.attrs.iter().any(|a| a.path().is_ident("cfg")) {
            continue;
        }
        let pat = toks(&arm.pat);
        let prefix = format!("{enum_name} :: ");
        let var = match pat.strip_prefix(&prefix) {
            Some(v) if !v.contains(' ') => v.to_string(),
            _ => continue, // tuple variants such as Custom(s)
        };
        let body_expr: syn::Expr = match &*arm.body {
            syn::Expr::Block(b) if b.block.stmts.len() == 1 => match &b.block.stmts[0] {
                syn::Stmt::Expr(e, None) => e.clone(),
                _ => (*arm.body).clone(),
            },
            o => o.clone(),
        };
        let body = path_string(&body_expr).ok_or_else(|| format!("arm {pat}: body `{}` is not a constant", toks(&arm.body)))?;
        out.insert(var, body);
    }
    Ok(out)
}

fn str_const(file: &syn::File, name: &str) -> Result<String, String> {
    match find_const(file, name) {
        Some(syn::Expr::Lit(l)) => match &l.lit {
            syn::Lit::Str(s) => Ok(s.value()),
            o => Err(format!("const {name} is not a string literal: {}", toks(o))),
        },
        Some(o) => Err(format!("const {name} is not a literal: {}", toks(&o))),
        None => Err(format!("const {name} not found")),
    }
}

/// `uuid!("…")` ↦ u128
fn uuid_const(file: &syn::File, name: &str) -> Result<u128, String> {
    let e = find_const(file, name).ok_or_else(|| format!("const {name} not found"))?;
    let m = match &e {
        syn::Expr::Macro(m) if m.mac.path.is_ident("uuid") => m,
        o => return Err(format!("const {name} is not uuid!(..): {}", toks(o))),
    };
    let lit: syn::LitStr = syn::parse2(m.mac.tokens.clone()).map_err(|e| format!("{name}: {e}"))?;
    let hex: String = lit.value().chars().filter(|c| *c != '-').collect();
    if hex.len() != 32 {
        return Err(format!("{name}: bad uuid literal {}", lit.value()));
    }
    u128::from_str_radix(&hex, 16).map_err(|e| format!("{name}: {e}"))
}

/// Elements of `vec![..]`, `btreeset![..]`, `[..]`, `BTreeSet::from([..])`.
fn list_elems(e: &syn::Expr) -> Result<Vec<syn::Expr>, String> {
    match e {
        syn::Expr::Macro(m) if m.mac.path.is_ident("vec") || m.mac.path.is_ident("btreeset") => {
            let p = m
                .mac
                .parse_body_with(Punctuated::<syn::Expr, syn::Token![,]>::parse_terminated)
                .map_err(|e| format!("macro body: {e}"))?;
            Ok(p.into_iter().collect())
        }
        syn::Expr::Array(a) => Ok(a.elems.iter().cloned().collect()),
        syn::Expr::Call(c) if toks(&c.func) == "BTreeSet :: from" && c.args.len() == 1 => list_elems(&c.args[0]),
        syn::Expr::Reference(r) => list_elems(&r.expr),
        syn::Expr::Paren(p) => list_elems(&p.expr),
        o => Err(format!("not a list literal: `{}`", toks(o))),
    }
}

/// `EntryClass::X`, `EntryClass::X.into()`, `EntryClass::X.as_ref()`, `Attribute::Y` ↦ (enum, variant)
fn enum_variant(e: &syn::Expr) -> Result<(String, String), String> {
    match e {
        syn::Expr::Path(p) if p.path.segments.len() == 2 => Ok((
            p.path.segments[0].ident.to_string(),
            p.path.segments[1].ident.to_string(),
        )),
        syn::Expr::MethodCall(m) if m.args.is_empty() && (m.method == "into" || m.method == "as_ref") => enum_variant(&m.receiver),
        syn::Expr::Paren(p) => enum_variant(&p.expr),
        syn::Expr::Reference(r) => enum_variant(&r.expr),
        o => Err(format!("not an enum variant: `{}`", toks(o))),
    }
}

fn variants_of(e: &syn::Expr, want: &str) -> Result<Vec<String>, String> {
    let mut out = vec![];
    for x in list_elems(e)? {
        let (en, v) = enum_variant(&x)?;
        if en != want {
            return Err(format!("expected {want}::_, found {en}::{v}"));
        }
        out.push(v);
    }
    Ok(out)
}

/// `static T: LazyLock<BTreeSet<String>> = LazyLock::new(|| { let classes = vec![…]; BTreeSet::from_iter(classes.into_iter().map(|ec| ec.into())) })`
fn class_table(file: &syn::File, name: &str) -> Result<Vec<String>, String> {
    let st = find_static(file, name)?;
    struct V(Vec<syn::ExprMacro>);
    impl<'ast> Visit<'ast> for V {
        fn visit_expr_macro(&mut self, m: &'ast syn::ExprMacro) {
            if m.mac.path.is_ident("vec") {
                self.0.push(m.clone());
            }
        }
    }
    let mut v = V(vec![]);
    v.visit_expr(&st.expr);
    if v.0.len() != 1 {
        return Err(format!("static {name}: expected one vec![..], found {}", v.0.len()));
    }
    let body = toks(&st.expr);
    if !body.contains("BTreeSet :: from_iter (classes . into_iter () . map (| ec | ec . into ()))") {
        return Err(format!("static {name}: unexpected construction `{body}`"));
    }
    variants_of(&syn::Expr::Macro(v.0.remove(0)), "EntryClass")
}

/// `X.extend([..])` statement ↦ (receiver, elements)
fn extend_call(s: &syn::Stmt) -> Option<(String, syn::Expr)> {
    let e = match s {
        syn::Stmt::Expr(e, _) => e,
        _ => return None,
    };
    match e {
        syn::Expr::MethodCall(m) if m.method == "extend" && m.args.len() == 1 => {
            Some((toks(&m.receiver), m.args[0].clone()))
        }
        _ => None,
    }
}

/// `if classes.contains(EntryClass::X.into()) { … }` ↦ (X, then-block)
fn class_contains_if(s: &syn::Stmt) -> Option<(String, syn::Block)> {
    let i = match s {
        syn::Stmt::Expr(syn::Expr::If(i), _) => i,
        _ => return None,
    };
    if i.else_branch.is_some() {
        return None;
    }
    match &*i.cond {
        syn::Expr::MethodCall(m) if m.method == "contains" && toks(&m.receiver) == "classes" && m.args.len() == 1 => {
            let (en, v) = enum_variant(&m.args[0]).ok()?;
            if en != "EntryClass" {
                return None;
            }
            Some((v, i.then_branch.clone()))
        }
        _ => None,
    }
}

fn lean_list(xs: &[String], prefix: &str) -> String {
    format!("[{}]", xs.iter().map(|x| format!("{prefix}.{x}")).collect::<Vec<_>>().join(", "))
}

fn lean_strs(xs: &[String]) -> String {
    format!("[{}]", xs.iter().map(|x| format!("{x:?}")).collect::<Vec<_>>().join(", "))
}

/// All binary comparisons against `UUID_ANONYMOUS` in a function.
fn anon_cmp(f: &FoundFn) -> Result<String, String> {
    struct V(Vec<syn::ExprBinary>);
    impl<'ast> Visit<'ast> for V {
        fn visit_expr_binary(&mut self, b: &'ast syn::ExprBinary) {
            if toks(&b.right) == "UUID_ANONYMOUS" {
                self.0.push(b.clone());
            }
            syn::visit::visit_expr_binary(self, b);
        }
    }
    let mut v = V(vec![]);
    v.visit_block(&f.block);
    if v.0.len() != 1 {
        return Err(format!("expected one comparison with UUID_ANONYMOUS, found {}", v.0.len()));
    }
    let b = &v.0[0];
    Ok(match b.op {
        syn::BinOp::Lt(_) => "decide (u < anon)",
        syn::BinOp::Le(_) => "decide (u ≤ anon)",
        syn::BinOp::Gt(_) => "decide (u > anon)",
        syn::BinOp::Ge(_) => "decide (u ≥ anon)",
        syn::BinOp::Eq(_) => "decide (u = anon)",
        syn::BinOp::Ne(_) => "decide (u ≠ anon)",
        _ => return Err(format!("unsupported comparison `{}`", toks(b))),
    }
    .to_string())
}

/// The table named in the single `classes.is_disjoint(&TABLE)` of a function.
fn disjoint_table(f: &FoundFn) -> Result<String, String> {
    struct V(Vec<String>);
    impl<'ast> Visit<'ast> for V {
        fn visit_expr_method_call(&mut self, m: &'ast syn::ExprMethodCall) {
            if m.method == "is_disjoint" && m.args.len() == 1 {
                self.0.push(format!("{}|{}", toks(&m.receiver), toks(&m.args[0])));
            }
            syn::visit::visit_expr_method_call(self, m);
        }
    }
    let mut v = V(vec![]);
    v.visit_block(&f.block);
    if v.0.len() != 1 {
        return Err(format!("expected one is_disjoint call, found {:?}", v.0));
    }
    match v.0[0].split_once('|') {
        Some(("classes", t)) => Ok(t.trim_start_matches("& ").to_string()),
        _ => Err(format!("unexpected is_disjoint call {:?}", v.0[0])),
    }
}

fn table_lean_name(t: &str) -> Result<&'static str, String> {
    Ok(match t {
        "PROTECTED_ENTRY_CLASSES" => "protectedEntryClasses",
        "PROTECTED_MOD_ENTRY_CLASSES" => "protectedModEntryClasses",
        "PROTECTED_MOD_PRES_ENTRY_CLASSES" => "protectedModPresClasses",
        "PROTECTED_MOD_REM_ENTRY_CLASSES" => "protectedModRemClasses",
        "LOCKED_ENTRY_CLASSES" => "lockedEntryClasses",
        "MIGRATION_ENTRY_CLASSES" => "migrationEntryClasses",
        "MIGRATION_IGNORE_CLASSES" => "migrationIgnoreClasses",
        o => return Err(format!("unknown class table {o}")),
    })
}

/// `for protected_cls in TABLE.iter() { SET.remove(protected_cls.as_str()); }` ↦ [(SET, TABLE)]
fn strip_loops(f: &FoundFn) -> Result<Vec<(String, String)>, String> {
    struct V(Vec<syn::ExprForLoop>);
    impl<'ast> Visit<'ast> for V {
        fn visit_expr_for_loop(&mut self, l: &'ast syn::ExprForLoop) {
            self.0.push(l.clone());
            syn::visit::visit_expr_for_loop(self, l);
        }
    }
    let mut v = V(vec![]);
    v.visit_block(&f.block);
    let mut out = vec![];
    for l in &v.0 {
        let it = toks(&l.expr);
        let table = it.strip_suffix(" . iter ()").ok_or_else(|| format!("unexpected loop iterator `{it}`"))?;
        let body = toks(&l.body);
        let set = body
            .strip_prefix("{ ")
            .and_then(|b| b.strip_suffix(" . remove (protected_cls . as_str ()) ; }"))
            .ok_or_else(|| format!("unexpected strip loop body `{body}`"))?;
        if toks(&l.pat) != "protected_cls" {
            return Err(format!("unexpected loop pattern `{}`", toks(&l.pat)));
        }
        out.push((set.to_string(), table.to_string()));
    }
    Ok(out)
}

/// The arms of the single `match ident.access_scope() { … }` ↦ scope variant → denied?
fn scope_gate(f: &FoundFn) -> Result<BTreeMap<String, bool>, String> {
    struct V(Vec<syn::ExprMatch>);
    impl<'ast> Visit<'ast> for V {
        fn visit_expr_match(&mut self, m: &'ast syn::ExprMatch) {
            if toks(&m.expr) == "ident . access_scope ()" {
                self.0.push(m.clone());
            }
            syn::visit::visit_expr_match(self, m);
        }
    }
    let mut v = V(vec![]);
    v.visit_block(&f.block);
    if v.0.len() != 1 {
        return Err(format!("expected one `match ident.access_scope()`, found {}", v.0.len()));
    }
    let mut out = BTreeMap::new();
    for arm in &v.0[0].arms {
        let body = toks(&arm.body);
        let denied = if body.contains("return") && body.contains(":: Deny") {
            true
        } else if !body.contains("return") && !body.contains("Deny") && !body.contains("Grant") {
            false
        } else {
            return Err(format!("unrecognised scope arm body `{body}`"));
        };
        let pats: Vec<syn::Pat> = match &arm.pat {
            syn::Pat::Or(o) => o.cases.iter().cloned().collect(),
            p => vec![p.clone()],
        };
        for p in pats {
            let s = toks(&p);
            let var = s.strip_prefix("AccessScope :: ").ok_or_else(|| format!("unexpected scope pattern `{s}`"))?;
            out.insert(var.to_string(), denied);
        }
    }
    for k in ["ReadOnly", "ReadWrite", "Synchronise"] {
        if !out.contains_key(k) {
            return Err(format!("scope {k} not covered: {out:?}"));
        }
    }
    if out.len() != 3 {
        return Err(format!("unexpected scope variants {out:?}"));
    }
    Ok(out)
}

/// The arms of the first `match &ident.origin { … }` ↦ origin pattern → "grant" | "deny" | "ignore" | "fall"
fn origin_gate(f: &FoundFn) -> Result<BTreeMap<String, String>, String> {
    struct V(Vec<syn::ExprMatch>);
    impl<'ast> Visit<'ast> for V {
        fn visit_expr_match(&mut self, m: &'ast syn::ExprMatch) {
            if toks(&m.expr) == "& ident . origin" {
                self.0.push(m.clone());
            }
            syn::visit::visit_expr_match(self, m);
        }
    }
    let mut v = V(vec![]);
    v.visit_block(&f.block);
    if v.0.len() != 1 {
        return Err(format!("expected one `match &ident.origin`, found {}", v.0.len()));
    }
    let mut out = BTreeMap::new();
    for arm in &v.0[0].arms {
        let body = toks(&arm.body);
        let res = if body.contains(":: Grant") && !body.contains("Deny") && !body.contains("Ignore") {
            "grant"
        } else if body.contains(":: Deny") && !body.contains("Grant") && !body.contains("Ignore") {
            "deny"
        } else if body.contains(":: Ignore") && !body.contains("Grant") && !body.contains("Deny") {
            "ignore"
        } else if body == "{ }" {
            "fall"
        } else {
            "other"
        };
        let pats: Vec<syn::Pat> = match &arm.pat {
            syn::Pat::Or(o) => o.cases.iter().cloned().collect(),
            p => vec![p.clone()],
        };
        for p in pats {
            let s = toks(&p);
            let key = match s.as_str() {
                "IdentType :: Internal (InternalRole :: System)" => "system",
                "IdentType :: Internal (InternalRole :: Migration)" => "migration",
                "IdentType :: Internal (InternalRole :: AccountRequest)" => "accountRequest",
                "IdentType :: Internal (InternalRole :: MessageQueue)" => "messageQueue",
                "IdentType :: Synch (_)" => "synch",
                "IdentType :: User (_)" => "user",
                o => return Err(format!("unexpected origin pattern `{o}`")),
            };
            out.insert(key.to_string(), res.to_string());
        }
    }
    for k in ["system", "migration", "accountRequest", "messageQueue", "synch", "user"] {
        if !out.contains_key(k) {
            return Err(format!("origin {k} not covered: {out:?}"));
        }
    }
    Ok(out)
}

/// Inside a function, the `BTreeSet::from([..])` / `btreeset![..]` literals in source order.
fn set_literals(block: &syn::Block) -> Vec<syn::Expr> {
    struct V(Vec<syn::Expr>);
    impl<'ast> Visit<'ast> for V {
        fn visit_expr_call(&mut self, c: &'ast syn::ExprCall) {
            if toks(&c.func) == "BTreeSet :: from" {
                self.0.push(syn::Expr::Call(c.clone()));
            }
            syn::visit::visit_expr_call(self, c);
        }
        fn visit_expr_macro(&mut self, m: &'ast syn::ExprMacro) {
            if m.mac.path.is_ident("btreeset") {
                self.0.push(syn::Expr::Macro(m.clone()));
            }
        }
    }
    let mut v = V(vec![]);
    v.visit_block(block);
    v.0
}

fn access_protected(repo: &str, out: &str) -> Result<String, String> {
    let entries_rs = parse_file(repo, "server/lib/src/constants/entries.rs")?;
    let attr_rs = parse_file(repo, "proto/src/attribute.rs")?;
    let consts_rs = parse_file(repo, "proto/src/constants.rs")?;
    let uuids_rs = parse_file(repo, "server/lib/src/constants/uuids.rs")?;
    let protected_rs = parse_file(repo, "server/lib/src/server/access/protected.rs")?;
    let migration_rs = parse_file(repo, "server/lib/src/server/access/migration.rs")?;
    let modify_rs = parse_file(repo, "server/lib/src/server/access/modify.rs")?;
    let create_rs = parse_file(repo, "server/lib/src/server/access/create.rs")?;
    let delete_rs = parse_file(repo, "server/lib/src/server/access/delete.rs")?;

    // ---- names
    let class_vars = unit_variants(&find_enum(&entries_rs, "EntryClass")?);
    let class_arms = variant_const_arms(&find_fn(&entries_rs, "From@EntryClass::from").or_else(|_| {
        // several `impl From<EntryClass> for …` exist; pick the one returning &'static str
        struct V(Vec<FoundFn>);
        impl<'ast> Visit<'ast> for V {
            fn visit_item_impl(&mut self, i: &'ast syn::ItemImpl) {
                let tr = i.trait_.as_ref().map(|(_, p, _)| toks(p)).unwrap_or_default();
                if tr == "From < EntryClass >" && toks(&i.self_ty) == "& 'static str" {
                    for it in &i.items {
                        if let syn::ImplItem::Fn(f) = it {
                            self.0.push(FoundFn { sig: f.sig.clone(), block: f.block.clone() });
                        }
                    }
                }
            }
        }
        let mut v = V(vec![]);
        v.visit_file(&entries_rs);
        if v.0.len() == 1 {
            Ok(v.0.remove(0))
        } else {
            Err(format!("impl From<EntryClass> for &'static str: {} candidates", v.0.len()))
        }
    })?, "EntryClass")?;
    let mut class_names = vec![];
    for v in &class_vars {
        let c = class_arms.get(v).ok_or_else(|| format!("EntryClass::{v} has no name arm"))?;
        class_names.push(str_const(&consts_rs, c)?);
    }
    let attr_vars = unit_variants(&find_enum(&attr_rs, "Attribute")?);
    let attr_arms = variant_const_arms(&find_fn(&attr_rs, "Attribute::as_str")?, "Attribute")?;
    let mut attr_names = vec![];
    for v in &attr_vars {
        let c = attr_arms.get(v).ok_or_else(|| format!("Attribute::{v} has no name arm"))?;
        attr_names.push(str_const(&consts_rs, c)?);
    }
    {
        let mut s = class_names.clone();
        s.sort();
        s.dedup();
        if s.len() != class_names.len() {
            return Err("two EntryClass variants share a wire name".into());
        }
        let mut s = attr_names.clone();
        s.sort();
        s.dedup();
        if s.len() != attr_names.len() {
            return Err("two Attribute variants share a wire name".into());
        }
    }
    let chk_cls = |xs: &[String]| -> Result<(), String> {
        for x in xs {
            if !class_vars.contains(x) {
                return Err(format!("EntryClass::{x} is not a plain variant"));
            }
        }
        Ok(())
    };
    let chk_attr = |xs: &[String]| -> Result<(), String> {
        for x in xs {
            if !attr_vars.contains(x) {
                return Err(format!("Attribute::{x} is not a plain variant"));
            }
        }
        Ok(())
    };

    let mut body = String::from("namespace Kanidm.Gen.Access\n");
    body += "/-- wire names of `EntryClass` (position = atom) -/\n";
    body += &format!("def classNames : List String := {}\n", lean_strs(&class_names));
    body += "/-- wire names of `Attribute` (position = atom) -/\n";
    body += &format!("def attrNames : List String := {}\n", lean_strs(&attr_names));
    body += "namespace C\n";
    for (i, v) in class_vars.iter().enumerate() {
        body += &format!("def {v} : Nat := {i}\n");
    }
    body += "end C\nnamespace A\n";
    for (i, v) in attr_vars.iter().enumerate() {
        body += &format!("def {v} : Nat := {i}\n");
    }
    body += "end A\n";

    // ---- class tables
    for t in [
        "PROTECTED_ENTRY_CLASSES",
        "PROTECTED_MOD_ENTRY_CLASSES",
        "PROTECTED_MOD_PRES_ENTRY_CLASSES",
        "PROTECTED_MOD_REM_ENTRY_CLASSES",
        "LOCKED_ENTRY_CLASSES",
    ] {
        let xs = class_table(&protected_rs, t)?;
        chk_cls(&xs)?;
        body += &format!("/-- `{t}` (access/protected.rs) -/\ndef {} : List Nat := {}\n", table_lean_name(t)?, lean_list(&xs, "C"));
    }
    for t in ["MIGRATION_ENTRY_CLASSES", "MIGRATION_IGNORE_CLASSES"] {
        let xs = class_table(&migration_rs, t)?;
        chk_cls(&xs)?;
        body += &format!("/-- `{t}` (access/migration.rs) -/\ndef {} : List Nat := {}\n", table_lean_name(t)?, lean_list(&xs, "C"));
    }

    // ---- modify_protected_entry_attrs
    let f = find_fn(&modify_rs, "modify_protected_entry_attrs")?;
    let stmts = &f.block.stmts;
    if stmts.len() < 4 {
        return Err("modify_protected_entry_attrs: too few statements".into());
    }
    let first = toks(&stmts[0]);
    if first != "if ! classes . is_disjoint (& LOCKED_ENTRY_CLASSES) { return AccessModResult :: Deny ; }" {
        return Err(format!("modify_protected_entry_attrs: LOCKED pre-check changed: `{first}`"));
    }
    if toks(&stmts[1]) != "let mut constrain_attrs = BTreeSet :: default () ;" {
        return Err(format!("modify_protected_entry_attrs: unexpected statement `{}`", toks(&stmts[1])));
    }
    let last = toks(&stmts[stmts.len() - 1]);
    let want_last = "if constrain_attrs . is_empty () { AccessModResult :: Deny } else { AccessModResult :: Constrain { pres_attr : constrain_attrs . clone () , rem_attr : constrain_attrs , pres_cls : None , rem_cls : None , } }";
    if last != want_last {
        return Err(format!("modify_protected_entry_attrs: tail changed: `{last}`"));
    }
    let mut constrain = vec![];
    for s in &stmts[2..stmts.len() - 1] {
        let (cls, blk) = class_contains_if(s).ok_or_else(|| format!("modify_protected_entry_attrs: unrecognised statement `{}`", toks(s)))?;
        if blk.stmts.len() != 1 {
            return Err(format!("modify_protected_entry_attrs: class {cls}: unexpected block `{}`", toks(&blk)));
        }
        let (recv, arg) = extend_call(&blk.stmts[0]).ok_or_else(|| format!("class {cls}: not an extend: `{}`", toks(&blk)))?;
        if recv != "constrain_attrs" {
            return Err(format!("class {cls}: extends `{recv}`"));
        }
        let attrs = variants_of(&arg, "Attribute")?;
        chk_cls(std::slice::from_ref(&cls))?;
        chk_attr(&attrs)?;
        constrain.push((cls, attrs));
    }
    body += "/-- `modify_protected_entry_attrs`: class ↦ attributes added to `constrain_attrs`, in source order -/\n";
    body += &format!(
        "def protectedConstrainTable : List (Nat × List Nat) := [{}]\n",
        constrain.iter().map(|(c, a)| format!("(C.{c}, {})", lean_list(a, "A"))).collect::<Vec<_>>().join(",\n  ")
    );

    // ---- migration_entry_attrs
    let f = find_fn(&migration_rs, "migration_entry_attrs")?;
    let stmts = &f.block.stmts;
    let mut base = None;
    let mut mig = vec![];
    let n = stmts.len();
    if n < 4 || toks(&stmts[n - 1]) != "(allow_attrs , allow_cls)" {
        return Err("migration_entry_attrs: unexpected tail".into());
    }
    for (i, s) in stmts[..n - 1].iter().enumerate() {
        let t = toks(s);
        if i < 2 {
            if !(t.starts_with("let mut allow_attrs") || t.starts_with("let mut allow_cls")) || !t.ends_with("BTreeSet :: default () ;") {
                return Err(format!("migration_entry_attrs: unexpected statement `{t}`"));
            }
            continue;
        }
        if let Some((recv, arg)) = extend_call(s) {
            if recv != "allow_attrs" || base.is_some() || !mig.is_empty() {
                return Err(format!("migration_entry_attrs: unexpected extend `{t}`"));
            }
            base = Some(variants_of(&arg, "Attribute")?);
            continue;
        }
        let (cls, blk) = class_contains_if(s).ok_or_else(|| format!("migration_entry_attrs: unrecognised statement `{t}`"))?;
        let mut reset: Option<Vec<String>> = None;
        let mut attrs: Vec<String> = vec![];
        let mut cleared = false;
        for bs in &blk.stmts {
            let bt = toks(bs);
            if bt == "allow_cls . clear () ;" {
                cleared = true;
                continue;
            }
            let (recv, arg) = extend_call(bs).ok_or_else(|| format!("migration_entry_attrs: class {cls}: `{bt}`"))?;
            match recv.as_str() {
                "allow_cls" => {
                    if !cleared || reset.is_some() {
                        return Err(format!("migration_entry_attrs: class {cls}: allow_cls extended without clear"));
                    }
                    reset = Some(variants_of(&arg, "EntryClass")?);
                }
                "allow_attrs" => attrs.extend(variants_of(&arg, "Attribute")?),
                o => return Err(format!("migration_entry_attrs: class {cls}: extends `{o}`")),
            }
        }
        if cleared && reset.is_none() {
            reset = Some(vec![]);
        }
        chk_cls(std::slice::from_ref(&cls))?;
        if let Some(r) = &reset {
            chk_cls(r)?;
        }
        chk_attr(&attrs)?;
        mig.push((cls, reset, attrs));
    }
    let base = base.ok_or("migration_entry_attrs: base extend not found")?;
    chk_attr(&base)?;
    body += &format!("/-- `migration_entry_attrs`: attributes always allowed -/\ndef migrationBaseAttrs : List Nat := {}\n", lean_list(&base, "A"));
    body += "/-- `migration_entry_attrs`: class ↦ (replacement of `allow_cls` if any, attributes added), in source order -/\n";
    body += &format!(
        "def migrationTable : List (Nat × Option (List Nat) × List Nat) := [{}]\n",
        mig.iter()
            .map(|(c, r, a)| format!(
                "(C.{c}, {}, {})",
                match r {
                    Some(r) => format!("some {}", lean_list(r, "C")),
                    None => "none".to_string(),
                },
                lean_list(a, "A")
            ))
            .collect::<Vec<_>>()
            .join(",\n  ")
    );

    // ---- modify_sync_constrain base set
    let f = find_fn(&modify_rs, "modify_sync_constrain")?;
    let lits = set_literals(&f.block);
    if lits.len() != 1 {
        return Err(format!("modify_sync_constrain: expected one btreeset![..], found {}", lits.len()));
    }
    let sync_base = variants_of(&lits[0], "Attribute")?;
    chk_attr(&sync_base)?;
    body += &format!("/-- `modify_sync_constrain`: attributes a user may always change on a synced entry -/\ndef syncConstrainBase : List Nat := {}\n", lean_list(&sync_base, "A"));

    // ---- protected gates
    let gates = [
        ("modify", find_fn(&modify_rs, "modify_protected_attrs")?),
        ("create", find_fn(&create_rs, "protected_filter_entry")?),
        ("delete", find_fn(&delete_rs, "protected_filter_entry")?),
    ];
    for (name, f) in &gates {
        let cmp = anon_cmp(f).map_err(|e| format!("{name} protected gate: {e}"))?;
        let table = disjoint_table(f).map_err(|e| format!("{name} protected gate: {e}"))?;
        body += &format!("/-- {name} protected gate: the comparison of the entry uuid with `UUID_ANONYMOUS` -/\ndef {name}AnonCmp (u anon : Nat) : Bool := {cmp}\n");
        body += &format!("/-- {name} protected gate: `classes.is_disjoint(&{table})` -/\ndef {name}GateClasses : List Nat := {}\n", table_lean_name(&table)?);
    }
    // the shape around the modify gate: `cmp && disjoint → Ignore else full ruleset`
    let mg = toks(&gates[0].1.block);
    {
        struct V(Vec<syn::ExprIf>);
        impl<'ast> Visit<'ast> for V {
            fn visit_expr_if(&mut self, i: &'ast syn::ExprIf) {
                self.0.push(i.clone());
                syn::visit::visit_expr_if(self, i);
            }
        }
        let mut v = V(vec![]);
        v.visit_block(&gates[0].1.block);
        let ok = v.0.iter().any(|i| {
            let shape_cond = match &*i.cond {
                syn::Expr::Binary(b) if matches!(b.op, syn::BinOp::And(_)) => {
                    toks(&b.left).starts_with("entry . get_uuid ()")
                        && toks(&b.left).ends_with("UUID_ANONYMOUS")
                        && toks(&b.right).starts_with("classes . is_disjoint (&")
                }
                _ => false,
            };
            shape_cond
                && toks(&i.then_branch) == "{ AccessModResult :: Ignore }"
                && i.else_branch.as_ref().map(|(_, e)| toks(e)) == Some("{ modify_protected_entry_attrs (classes) }".to_string())
        });
        if !ok {
            return Err(format!("modify_protected_attrs: gate is no longer `if uuid-cmp && disjoint {{ Ignore }} else {{ full ruleset }}`: `{mg}`"));
        }
    }

    // ---- strip loops
    let ms = strip_loops(&find_fn(&modify_rs, "apply_modify_access")?)?;
    let want: Vec<&str> = vec!["allowed_pres_cls", "allowed_rem_cls"];
    if ms.iter().map(|(s, _)| s.as_str()).collect::<Vec<_>>() != want {
        return Err(format!("apply_modify_access: strip loops changed: {ms:?}"));
    }
    body += &format!("/-- `apply_modify_access`: classes removed from the allowed present-class set -/\ndef modifyStripPres : List Nat := {}\n", table_lean_name(&ms[0].1)?);
    body += &format!("/-- `apply_modify_access`: classes removed from the allowed remove-class set -/\ndef modifyStripRem : List Nat := {}\n", table_lean_name(&ms[1].1)?);
    let cs = strip_loops(&find_fn(&create_rs, "apply_create_access")?)?;
    if cs.len() != 1 || cs[0].0 != "allowed_pres_cls" {
        return Err(format!("apply_create_access: strip loops changed: {cs:?}"));
    }
    body += &format!("/-- `apply_create_access`: classes removed from the allowed class set -/\ndef createStripPres : List Nat := {}\n", table_lean_name(&cs[0].1)?);

    // ---- scope gates
    for (name, f) in [
        ("modify", find_fn(&modify_rs, "modify_ident_test")?),
        ("create", find_fn(&create_rs, "create_filter_entry")?),
        ("delete", find_fn(&delete_rs, "delete_filter_entry")?),
    ] {
        let g = scope_gate(&f).map_err(|e| format!("{name} scope gate: {e}"))?;
        body += &format!(
            "/-- {name}: `match ident.access_scope()` — is a user of this scope refused? (0 ReadOnly, 1 ReadWrite, 2 Synchronise) -/\ndef {name}ScopeDenied : Nat → Bool\n  | 0 => {}\n  | 1 => {}\n  | _ => {}\n",
            g["ReadOnly"], g["ReadWrite"], g["Synchronise"]
        );
    }

    // ---- origin gate of modify_ident_test: 0 deny, 1 grant, 2 continue to the scope test
    let og = origin_gate(&find_fn(&modify_rs, "modify_ident_test")?)?;
    let code = |k: &str| -> Result<u8, String> {
        match og[k].as_str() {
            "deny" => Ok(0),
            "grant" => Ok(1),
            "fall" => Ok(2),
            o => Err(format!("modify_ident_test: origin {k} has unrecognised arm ({o})")),
        }
    };
    body += "/-- `modify_ident_test`: origin ↦ 0 Deny, 1 Grant, 2 fall through to the scope test.\nOrigins: 0 System, 1 Migration, 2 AccountRequest, 3 MessageQueue, 4 Synch, 5 User -/\n";
    body += &format!(
        "def modifyOriginGate : Nat → Nat\n  | 0 => {}\n  | 1 => {}\n  | 2 => {}\n  | 3 => {}\n  | 4 => {}\n  | _ => {}\n",
        code("system")?, code("migration")?, code("accountRequest")?, code("messageQueue")?, code("synch")?, code("user")?
    );

    // ---- inline create rules
    let f = find_fn(&create_rs, "create_filter_entry")?;
    let lits = set_literals(&f.block);
    if lits.len() != 2 {
        return Err(format!("create_filter_entry: expected two BTreeSet::from literals, found {}", lits.len()));
    }
    let ar_attrs = variants_of(&lits[0], "Attribute")?;
    let ar_cls = variants_of(&lits[1], "EntryClass")?;
    chk_attr(&ar_attrs)?;
    chk_cls(&ar_cls)?;
    body += &format!("/-- `create_filter_entry`, AccountRequest arm -/\ndef accountRequestCreateAttrs : List Nat := {}\ndef accountRequestCreateClasses : List Nat := {}\n", lean_list(&ar_attrs, "A"), lean_list(&ar_cls, "C"));
    let f = find_fn(&create_rs, "message_queue")?;
    let lits = set_literals(&f.block);
    if lits.len() != 2 {
        return Err(format!("message_queue: expected two BTreeSet::from literals, found {}", lits.len()));
    }
    let mq_attrs = variants_of(&lits[0], "Attribute")?;
    let mq_cls = variants_of(&lits[1], "EntryClass")?;
    chk_attr(&mq_attrs)?;
    chk_cls(&mq_cls)?;
    body += &format!("/-- `message_queue` (create.rs) -/\ndef messageQueueCreateAttrs : List Nat := {}\ndef messageQueueCreateClasses : List Nat := {}\n", lean_list(&mq_attrs, "A"), lean_list(&mq_cls, "C"));

    // ---- uuids
    body += &format!("def uuidAnonymous : Nat := {}\n", uuid_const(&consts_rs, "UUID_ANONYMOUS").or_else(|_| uuid_const(&uuids_rs, "UUID_ANONYMOUS"))?);
    for (lean, c) in [
        ("uuidSystem", "UUID_SYSTEM"),
        ("uuidInternalMigration", "UUID_INTERNAL_MIGRATION"),
        ("uuidInternalAccountRequest", "UUID_INTERNAL_ACCOUNT_REQUEST"),
        ("uuidInternalMessageQueue", "UUID_INTERNAL_MESSAGE_QUEUE"),
    ] {
        body += &format!("def {lean} : Nat := {}\n", uuid_const(&uuids_rs, c)?);
    }
    body += "end Kanidm.Gen.Access\n";
    write_generated(
        out,
        "AccessProtected",
        "server/lib/src/server/access/{protected,migration,modify,create,delete}.rs, constants/entries.rs, proto/src/{attribute,constants}.rs",
        &body,
    )?;
    Ok(format!(
        "AccessProtected: {} classes, {} attributes, {} constraint rows, {} migration rows",
        class_names.len(),
        attr_names.len(),
        constrain.len(),
        mig.len()
    ))
}
