//! C29 translator item `totp-ops`: everything table- or operator-like in
//! `server/lib/src/credential/totp.rs` that the TOTP model reads.
//!
//! Regenerated into `Generated/TotpOps.lean`: the variants and `#[repr(u32)]` discriminants of
//! `TotpDigits`, its `Into<u8>` / `TryFrom<u8>` tables, the variants of `TotpAlgo`, which HMAC
//! each arm of `TotpAlgo::digest` builds (and that each arm is exactly `new_from_slice(key_bytes)`,
//! `update(&counter.to_{be,le}_bytes())`, `finalize().into_bytes().to_vec()`), the algorithm
//! tables of the four conversions (`TryFrom<ProtoTotp>`, `TryFrom<DbTotpV1>`, `to_proto`,
//! `to_dbtotpv1`), the offset mask, slice bounds, byte order, 31-bit mask and modulus of
//! `Totp::digest`, and the counter expression, the two `digest` arguments, the comparison and the
//! error default of `Totp::verify`.  Any other statement shape is an `Err`.
use crate::util::*;
use quote::ToTokens;
use std::collections::BTreeMap;

pub fn run(item: &str, repo: &str, out: &str) -> Option<Result<String, String>> {
    match item {
        "totp-ops" => Some(totp_ops(repo, out)),
        _ => None,
    }
}

const REL: &str = "server/lib/src/credential/totp.rs";

fn toks<T: ToTokens>(t: &T) -> String {
    t.to_token_stream().to_string()
}

fn vars(pairs: &[(&str, &str)]) -> BTreeMap<String, String> {
    pairs.iter().map(|(a, b)| (a.to_string(), b.to_string())).collect()
}

/// Render an integer / boolean expression as Lean over `Nat` (or `Int`, the operators are the
/// same); `as` casts are dropped (all values are in range of the target type, see the model's
/// header), leaves go through `vars`.  Unknown shapes are errors.
fn lx(e: &syn::Expr, vars: &BTreeMap<String, String>) -> Result<String, String> {
    use syn::{BinOp, Expr};
    if let Some(p) = path_string(e) {
        if let Some(v) = vars.get(&p) {
            return Ok(v.clone());
        }
    }
    match e {
        Expr::Paren(p) => lx(&p.expr, vars),
        Expr::Group(g) => lx(&g.expr, vars),
        Expr::Cast(c) => lx(&c.expr, vars),
        Expr::Lit(l) => match &l.lit {
            syn::Lit::Int(i) => Ok(i.base10_digits().to_string()),
            o => Err(format!("unsupported literal {}", toks(o))),
        },
        Expr::Binary(b) => {
            let l = lx(&b.left, vars)?;
            let r = lx(&b.right, vars)?;
            Ok(match b.op {
                BinOp::Add(_) => format!("({l} + {r})"),
                BinOp::Sub(_) => format!("({l} - {r})"),
                BinOp::Mul(_) => format!("({l} * {r})"),
                BinOp::Div(_) => format!("({l} / {r})"),
                BinOp::Rem(_) => format!("({l} % {r})"),
                BinOp::BitAnd(_) => format!("({l} &&& {r})"),
                BinOp::BitOr(_) => format!("({l} ||| {r})"),
                BinOp::BitXor(_) => format!("({l} ^^^ {r})"),
                BinOp::Shl(_) => format!("({l} <<< {r})"),
                BinOp::Shr(_) => format!("({l} >>> {r})"),
                BinOp::Eq(_) => format!("({l} == {r})"),
                BinOp::Ne(_) => format!("({l} != {r})"),
                BinOp::Lt(_) => format!("decide ({l} < {r})"),
                BinOp::Le(_) => format!("decide ({l} ≤ {r})"),
                BinOp::Gt(_) => format!("decide ({l} > {r})"),
                BinOp::Ge(_) => format!("decide ({l} ≥ {r})"),
                _ => return Err(format!("unsupported operator in `{}`", toks(e))),
            })
        }
        _ => Err(format!("unrecognised expression `{}` (known leaves: {:?})", toks(e), vars.keys().collect::<Vec<_>>())),
    }
}

fn find_enum<'a>(file: &'a syn::File, name: &str) -> Result<&'a syn::ItemEnum, String> {
    file.items
        .iter()
        .find_map(|i| match i {
            syn::Item::Enum(e) if e.ident == name => Some(e),
            _ => None,
        })
        .ok_or_else(|| format!("enum {name} not found"))
}

/// The single method `method` of `impl <Trait><<generic>> for <ty>` (generic = None: any).
fn impl_method(file: &syn::File, tr: &str, generic: Option<&str>, ty: &str, method: &str) -> Result<syn::ImplItemFn, String> {
    let mut found = vec![];
    for it in &file.items {
        if let syn::Item::Impl(im) = it {
            let Some((_, path, _)) = &im.trait_ else { continue };
            let Some(seg) = path.segments.last() else { continue };
            if seg.ident != tr || toks(&im.self_ty) != ty {
                continue;
            }
            if let Some(g) = generic {
                if toks(&seg.arguments) != format!("< {g} >") {
                    continue;
                }
            }
            for m in &im.items {
                if let syn::ImplItem::Fn(f) = m {
                    if f.sig.ident == method {
                        found.push(f.clone());
                    }
                }
            }
        }
    }
    match found.len() {
        1 => Ok(found.remove(0)),
        n => Err(format!("expected exactly one `impl {tr}<{}> for {ty}` with fn {method}, found {n}", generic.unwrap_or("_"))),
    }
}

fn last_seg(p: &syn::Path) -> String {
    p.segments.last().map(|s| s.ident.to_string()).unwrap_or_default()
}

/// `match <scrutinee> { A::X => B::Y, ... }` → [(X, Y)]; no guards, no wildcard.
fn path_table(m: &syn::ExprMatch, what: &str) -> Result<Vec<(String, String)>, String> {
    let mut v = vec![];
    for arm in &m.arms {
        if arm.guard.is_some() {
            return Err(format!("{what}: guarded arm"));
        }
        let from = match &arm.pat {
            syn::Pat::Path(p) => last_seg(&p.path),
            o => return Err(format!("{what}: unexpected pattern `{}`", toks(o))),
        };
        let to = match &*arm.body {
            syn::Expr::Path(p) => last_seg(&p.path),
            o => return Err(format!("{what}: unexpected arm body `{}`", toks(o))),
        };
        v.push((from, to));
    }
    Ok(v)
}

/// The value of field `name` in a struct literal.
fn field<'a>(s: &'a syn::ExprStruct, name: &str) -> Result<&'a syn::Expr, String> {
    s.fields
        .iter()
        .find(|f| matches!(&f.member, syn::Member::Named(i) if i == name))
        .map(|f| &f.expr)
        .ok_or_else(|| format!("field {name} missing in `{}`", toks(&s.path)))
}

/// First struct literal of type `ty` in a block.
fn struct_lit(block: &syn::Block, ty: &str) -> Result<syn::ExprStruct, String> {
    struct V<'a>(&'a str, Option<syn::ExprStruct>);
    impl<'a, 'ast> syn::visit::Visit<'ast> for V<'a> {
        fn visit_expr_struct(&mut self, s: &'ast syn::ExprStruct) {
            if self.1.is_none() && last_seg(&s.path) == self.0 {
                self.1 = Some(s.clone());
            }
            syn::visit::visit_expr_struct(self, s);
        }
    }
    let mut v = V(ty, None);
    syn::visit::Visit::visit_block(&mut v, block);
    v.1.ok_or_else(|| format!("no `{ty} {{ .. }}` literal found"))
}

fn as_match(e: &syn::Expr, what: &str) -> Result<syn::ExprMatch, String> {
    match e {
        syn::Expr::Match(m) => Ok(m.clone()),
        o => Err(format!("{what}: expected a match, found `{}`", toks(o))),
    }
}

fn expect_toks<T: ToTokens>(t: &T, want: &str, what: &str) -> Result<(), String> {
    let got = toks(t);
    if got == want {
        Ok(())
    } else {
        Err(format!("{what}: expected `{want}`, found `{got}`"))
    }
}

fn local_init<'a>(s: &'a syn::Stmt, name: &str, what: &str) -> Result<&'a syn::Expr, String> {
    match s {
        syn::Stmt::Local(l) => {
            let ident = match &l.pat {
                syn::Pat::Ident(i) => i.ident.to_string(),
                syn::Pat::Type(t) => match &*t.pat {
                    syn::Pat::Ident(i) => i.ident.to_string(),
                    o => return Err(format!("{what}: unexpected pattern `{}`", toks(o))),
                },
                o => return Err(format!("{what}: unexpected pattern `{}`", toks(o))),
            };
            if ident != name {
                return Err(format!("{what}: expected `let {name}`, found `let {ident}`"));
            }
            let init = l.init.as_ref().ok_or_else(|| format!("{what}: no initialiser"))?;
            if init.diverge.is_some() {
                return Err(format!("{what}: let-else"));
            }
            Ok(&init.expr)
        }
        o => Err(format!("{what}: expected `let {name} = ..`, found `{}`", toks(o))),
    }
}

/// `recv.method(args)`; returns (recv, args).
fn method<'a>(e: &'a syn::Expr, name: &str, what: &str) -> Result<(&'a syn::Expr, Vec<&'a syn::Expr>), String> {
    match e {
        syn::Expr::MethodCall(m) if m.method == name => Ok((&m.receiver, m.args.iter().collect())),
        o => Err(format!("{what}: expected a call of `.{name}(..)`, found `{}`", toks(o))),
    }
}

fn strip_try<'a>(e: &'a syn::Expr, what: &str) -> Result<&'a syn::Expr, String> {
    match e {
        syn::Expr::Try(t) => Ok(&t.expr),
        o => Err(format!("{what}: expected `..?`, found `{}`", toks(o))),
    }
}

/// `|x| body` with a single identifier parameter; returns (x, body).
fn closure1<'a>(e: &'a syn::Expr, what: &str) -> Result<(String, &'a syn::Expr), String> {
    match e {
        syn::Expr::Closure(c) if c.inputs.len() == 1 => match &c.inputs[0] {
            syn::Pat::Ident(i) => Ok((i.ident.to_string(), &c.body)),
            o => Err(format!("{what}: unexpected closure parameter `{}`", toks(o))),
        },
        o => Err(format!("{what}: expected a one-parameter closure, found `{}`", toks(o))),
    }
}

fn lean_enum(name: &str, doc: &str, variants: &[String]) -> String {
    let mut s = format!("/-- {doc} -/\ninductive {name} where\n");
    for v in variants {
        s += &format!("  | {v}\n");
    }
    s += "  deriving DecidableEq, Repr\n";
    s
}

fn lean_table(name: &str, doc: &str, from_ty: &str, to_ty: &str, rows: &[(String, String)]) -> String {
    let mut s = format!("/-- {doc} -/\ndef {name} : {from_ty} → {to_ty}\n");
    for (a, b) in rows {
        s += &format!("  | .{a} => {b}\n");
    }
    s
}

fn totp_ops(repo: &str, out: &str) -> Result<String, String> {
    let ast = parse_file(repo, REL)?;
    let no_env = |_: &str| -> Option<i128> { None };

    // ---- enum TotpDigits (repr u32, discriminants)
    let digits = find_enum(&ast, "TotpDigits")?;
    if !digits.attrs.iter().any(|a| toks(a) == "# [repr (u32)]") {
        return Err("TotpDigits is not `#[repr(u32)]` any more (the model reads `self.digits as u32` as the discriminant)".into());
    }
    let mut dvars = vec![];
    let mut modulus = vec![];
    for v in &digits.variants {
        if !matches!(v.fields, syn::Fields::Unit) {
            return Err(format!("TotpDigits::{} carries data", v.ident));
        }
        let (_, d) = v.discriminant.as_ref().ok_or_else(|| format!("TotpDigits::{} has no explicit discriminant", v.ident))?;
        let n = eval_int(d, &no_env)?;
        dvars.push(v.ident.to_string());
        modulus.push((v.ident.to_string(), n.to_string()));
    }

    // ---- enum TotpAlgo
    let algo = find_enum(&ast, "TotpAlgo")?;
    let mut avars = vec![];
    for v in &algo.variants {
        if !matches!(v.fields, syn::Fields::Unit) || v.discriminant.is_some() {
            return Err(format!("TotpAlgo::{} is not a plain variant", v.ident));
        }
        avars.push(v.ident.to_string());
    }

    // ---- impl Into<u8> for TotpDigits
    let into = impl_method(&ast, "Into", Some("u8"), "TotpDigits", "into")?;
    let m = match into.block.stmts.as_slice() {
        [syn::Stmt::Expr(e, None)] => as_match(e, "TotpDigits::into")?,
        _ => return Err("TotpDigits::into: expected a single match expression".into()),
    };
    expect_toks(&m.expr, "self", "TotpDigits::into scrutinee")?;
    let mut count = vec![];
    for arm in &m.arms {
        let from = match &arm.pat {
            syn::Pat::Path(p) => last_seg(&p.path),
            o => return Err(format!("TotpDigits::into: unexpected pattern `{}`", toks(o))),
        };
        count.push((from, eval_int(&arm.body, &no_env)?.to_string()));
    }

    // ---- impl TryFrom<u8> for TotpDigits
    let tf = impl_method(&ast, "TryFrom", Some("u8"), "TotpDigits", "try_from")?;
    let m = match tf.block.stmts.as_slice() {
        [syn::Stmt::Expr(e, None)] => as_match(e, "TotpDigits::try_from")?,
        _ => return Err("TotpDigits::try_from: expected a single match expression".into()),
    };
    expect_toks(&m.expr, "value", "TotpDigits::try_from scrutinee")?;
    let mut of_u8 = vec![];
    let mut saw_default = false;
    for arm in &m.arms {
        if arm.guard.is_some() || saw_default {
            return Err("TotpDigits::try_from: guard, or an arm after the wildcard".into());
        }
        match &arm.pat {
            syn::Pat::Lit(l) => {
                let n = eval_int(&syn::Expr::Lit(l.clone()), &no_env)?;
                let body = toks(&arm.body);
                let v = body
                    .strip_prefix("Ok (TotpDigits :: ")
                    .and_then(|r| r.strip_suffix(")"))
                    .ok_or_else(|| format!("TotpDigits::try_from: unexpected arm body `{body}`"))?;
                of_u8.push((n, v.trim().to_string()));
            }
            syn::Pat::Wild(_) => {
                expect_toks(&arm.body, "Err (())", "TotpDigits::try_from default arm")?;
                saw_default = true;
            }
            o => return Err(format!("TotpDigits::try_from: unexpected pattern `{}`", toks(o))),
        }
    }
    if !saw_default {
        return Err("TotpDigits::try_from: no `_ => Err(())` arm".into());
    }

    // ---- TotpAlgo::digest
    let use_ok = ast.items.iter().any(|i| match i {
        syn::Item::Use(u) => {
            let t = toks(u);
            t.contains("crypto_glue") && t.contains("hmac_s1 :: HmacSha1") && t.contains("hmac_s256 :: HmacSha256") && t.contains("hmac_s512 :: HmacSha512")
        }
        _ => false,
    });
    if !use_ok {
        return Err("the `use crypto_glue::{hmac_s1::HmacSha1, hmac_s256::HmacSha256, hmac_s512::HmacSha512, ..}` import changed".into());
    }
    let ad = find_fn(&ast, "TotpAlgo::digest")?;
    expect_toks(&ad.sig.inputs, "self , key_bytes : & [u8] , counter : u64", "TotpAlgo::digest parameters")?;
    let (m, tail) = match ad.block.stmts.as_slice() {
        [s0, syn::Stmt::Expr(tail, None)] => (as_match(local_init(s0, "hmac", "TotpAlgo::digest")?, "TotpAlgo::digest")?, tail),
        _ => return Err("TotpAlgo::digest: expected `let hmac = match self {..}; Ok(hmac)`".into()),
    };
    expect_toks(tail, "Ok (hmac)", "TotpAlgo::digest result")?;
    expect_toks(&m.expr, "self", "TotpAlgo::digest scrutinee")?;
    let mut hmac_hash = vec![];
    let mut endian: Option<bool> = None;
    for arm in &m.arms {
        let from = match &arm.pat {
            syn::Pat::Path(p) => last_seg(&p.path),
            o => return Err(format!("TotpAlgo::digest: unexpected pattern `{}`", toks(o))),
        };
        let stmts = match &*arm.body {
            syn::Expr::Block(b) => &b.block.stmts,
            o => return Err(format!("TotpAlgo::digest arm {from}: expected a block, found `{}`", toks(o))),
        };
        if stmts.len() != 3 {
            return Err(format!("TotpAlgo::digest arm {from}: expected 3 statements, found {}", stmts.len()));
        }
        let s0 = toks(&stmts[0]);
        let ty = s0
            .strip_prefix("let mut hmac = ")
            .and_then(|r| r.strip_suffix(" :: new_from_slice (key_bytes) . map_err (| _ | TotpError :: InvalidKeyError) ? ;"))
            .ok_or_else(|| format!("TotpAlgo::digest arm {from}: unexpected key setup `{s0}`"))?;
        let hash = match ty {
            "HmacSha1" => "Sha1",
            "HmacSha256" => "Sha256",
            "HmacSha512" => "Sha512",
            o => return Err(format!("TotpAlgo::digest arm {from}: unknown HMAC type {o}")),
        };
        let s1 = toks(&stmts[1]);
        let be = match s1.as_str() {
            "hmac . update (& counter . to_be_bytes ()) ;" => true,
            "hmac . update (& counter . to_le_bytes ()) ;" => false,
            o => return Err(format!("TotpAlgo::digest arm {from}: unexpected update `{o}`")),
        };
        if endian.is_some() && endian != Some(be) {
            return Err("TotpAlgo::digest: arms disagree on the counter byte order".into());
        }
        endian = Some(be);
        expect_toks(&stmts[2], "hmac . finalize () . into_bytes () . to_vec ()", &format!("TotpAlgo::digest arm {from} result"))?;
        hmac_hash.push((from, format!(".{hash}")));
    }
    let endian = endian.ok_or("TotpAlgo::digest: no arms")?;

    // ---- conversions
    let tf_proto = impl_method(&ast, "TryFrom", Some("ProtoTotp"), "Totp", "try_from")?;
    let lit = struct_lit(&tf_proto.block, "Totp")?;
    expect_toks(field(&lit, "secret")?, "value . secret", "TryFrom<ProtoTotp>: secret")?;
    expect_toks(field(&lit, "step")?, "value . step", "TryFrom<ProtoTotp>: step")?;
    expect_toks(field(&lit, "digits")?, "TotpDigits :: try_from (value . digits) ?", "TryFrom<ProtoTotp>: digits")?;
    let m = as_match(field(&lit, "algo")?, "TryFrom<ProtoTotp>: algo")?;
    expect_toks(&m.expr, "value . algo", "TryFrom<ProtoTotp>: algo scrutinee")?;
    let of_proto = path_table(&m, "TryFrom<ProtoTotp>: algo")?;

    let tf_db = impl_method(&ast, "TryFrom", Some("DbTotpV1"), "Totp", "try_from")?;
    let lit = struct_lit(&tf_db.block, "Totp")?;
    expect_toks(field(&lit, "secret")?, "value . key", "TryFrom<DbTotpV1>: secret")?;
    expect_toks(field(&lit, "step")?, "value . step", "TryFrom<DbTotpV1>: step")?;
    let (m, db_default) = match tf_db.block.stmts.as_slice() {
        [s0, s1, _] => {
            let m = as_match(local_init(s0, "algo", "TryFrom<DbTotpV1>")?, "TryFrom<DbTotpV1>: algo")?;
            let d = toks(local_init(s1, "digits", "TryFrom<DbTotpV1>")?);
            let n = d
                .strip_prefix("TotpDigits :: try_from (value . digits . unwrap_or (")
                .and_then(|r| r.strip_suffix(")) ?"))
                .ok_or_else(|| format!("TryFrom<DbTotpV1>: unexpected digits `{d}`"))?
                .trim()
                .parse::<u64>()
                .map_err(|e| format!("TryFrom<DbTotpV1>: default digits: {e}"))?;
            (m, n)
        }
        _ => return Err("TryFrom<DbTotpV1>: expected `let algo = match ..; let digits = ..; Ok(Totp {..})`".into()),
    };
    expect_toks(&m.expr, "value . algo", "TryFrom<DbTotpV1>: algo scrutinee")?;
    let of_db = path_table(&m, "TryFrom<DbTotpV1>: algo")?;

    let to_db = find_fn(&ast, "Totp::to_dbtotpv1")?;
    let lit = struct_lit(&to_db.block, "DbTotpV1")?;
    expect_toks(field(&lit, "key")?, "self . secret . clone ()", "to_dbtotpv1: key")?;
    expect_toks(field(&lit, "step")?, "self . step", "to_dbtotpv1: step")?;
    expect_toks(field(&lit, "digits")?, "Some (self . digits . into ())", "to_dbtotpv1: digits")?;
    let m = as_match(field(&lit, "algo")?, "to_dbtotpv1: algo")?;
    expect_toks(&m.expr, "self . algo", "to_dbtotpv1: algo scrutinee")?;
    let to_db_t = path_table(&m, "to_dbtotpv1: algo")?;

    let to_proto = find_fn(&ast, "Totp::to_proto")?;
    let lit = struct_lit(&to_proto.block, "ProtoTotp")?;
    expect_toks(field(&lit, "secret")?, "self . secret . clone ()", "to_proto: secret")?;
    expect_toks(field(&lit, "step")?, "self . step", "to_proto: step")?;
    expect_toks(field(&lit, "digits")?, "self . digits . into ()", "to_proto: digits")?;
    let m = as_match(field(&lit, "algo")?, "to_proto: algo")?;
    expect_toks(&m.expr, "self . algo", "to_proto: algo scrutinee")?;
    let to_proto_t = path_table(&m, "to_proto: algo")?;

    // ---- Totp::digest
    let dg = find_fn(&ast, "Totp::digest")?;
    expect_toks(&dg.sig.inputs, "& self , counter : u64", "Totp::digest parameters")?;
    let st = &dg.block.stmts;
    if st.len() != 5 {
        return Err(format!("Totp::digest: expected 5 statements, found {}", st.len()));
    }
    expect_toks(local_init(&st[0], "hmac", "Totp::digest")?, "self . algo . digest (& self . secret , counter) ?", "Totp::digest hmac")?;
    // let offset = hmac.last().map(|v| (v & 0xf) as usize).ok_or(TotpError::HmacError)?;
    let e = strip_try(local_init(&st[1], "offset", "Totp::digest")?, "Totp::digest offset")?;
    let (recv, args) = method(e, "ok_or", "Totp::digest offset")?;
    if args.len() != 1 || toks(args[0]) != "TotpError :: HmacError" {
        return Err("Totp::digest offset: expected `.ok_or(TotpError::HmacError)`".into());
    }
    let (recv, args) = method(recv, "map", "Totp::digest offset")?;
    expect_toks(recv, "hmac . last ()", "Totp::digest offset source")?;
    if args.len() != 1 {
        return Err("Totp::digest offset: map takes one closure".into());
    }
    let (v, body) = closure1(args[0], "Totp::digest offset")?;
    let offset_of = lx(body, &vars(&[(&v, "v")]))?;
    // let bytes: [u8; 4] = hmac[offset..offset + 4].try_into().map_err(|_| TotpError::HmacError)?;
    let array_len = match &st[2] {
        syn::Stmt::Local(l) => match &l.pat {
            syn::Pat::Type(t) => match &*t.ty {
                syn::Type::Array(a) if toks(&a.elem) == "u8" => eval_int(&a.len, &no_env)?,
                o => return Err(format!("Totp::digest bytes: expected `[u8; N]`, found `{}`", toks(o))),
            },
            _ => return Err("Totp::digest bytes: no type annotation".into()),
        },
        _ => return Err("Totp::digest bytes: expected a let".into()),
    };
    let e = strip_try(local_init(&st[2], "bytes", "Totp::digest")?, "Totp::digest bytes")?;
    let (recv, _) = method(e, "map_err", "Totp::digest bytes")?;
    let (recv, args) = method(recv, "try_into", "Totp::digest bytes")?;
    if !args.is_empty() {
        return Err("Totp::digest bytes: try_into takes no arguments".into());
    }
    let (slice_start, slice_end) = match recv {
        syn::Expr::Index(ix) => {
            expect_toks(&ix.expr, "hmac", "Totp::digest bytes: sliced value")?;
            match &*ix.index {
                syn::Expr::Range(r) if matches!(r.limits, syn::RangeLimits::HalfOpen(_)) => {
                    let vs = vars(&[("offset", "offset")]);
                    let a = r.start.as_ref().ok_or("Totp::digest bytes: open range start")?;
                    let b = r.end.as_ref().ok_or("Totp::digest bytes: open range end")?;
                    (lx(a, &vs)?, lx(b, &vs)?)
                }
                o => return Err(format!("Totp::digest bytes: expected `a..b`, found `{}`", toks(o))),
            }
        }
        o => return Err(format!("Totp::digest bytes: expected `hmac[a..b]`, found `{}`", toks(o))),
    };
    // let otp = u32::from_be_bytes(bytes);
    let otp_be = match toks(local_init(&st[3], "otp", "Totp::digest")?).as_str() {
        "u32 :: from_be_bytes (bytes)" => true,
        "u32 :: from_le_bytes (bytes)" => false,
        o => return Err(format!("Totp::digest otp: unexpected `{o}`")),
    };
    // Ok((otp & 0x7fff_ffff) % (self.digits as u32))
    let finalise = match &st[4] {
        syn::Stmt::Expr(syn::Expr::Call(c), None) if toks(&c.func) == "Ok" && c.args.len() == 1 => {
            lx(&c.args[0], &vars(&[("otp", "otp"), ("self.digits", "digits")]))?
        }
        o => return Err(format!("Totp::digest result: expected `Ok(..)`, found `{}`", toks(o))),
    };

    // ---- Totp::verify
    let vf = find_fn(&ast, "Totp::verify")?;
    expect_toks(&vf.sig.inputs, "& self , chal : u32 , time : Duration", "Totp::verify parameters")?;
    let st = &vf.block.stmts;
    if st.len() != 3 {
        return Err(format!("Totp::verify: expected 3 statements, found {}", st.len()));
    }
    expect_toks(local_init(&st[0], "secs", "Totp::verify")?, "time . as_secs ()", "Totp::verify secs")?;
    let counter_of = lx(local_init(&st[1], "counter", "Totp::verify")?, &vars(&[("secs", "secs"), ("self.step", "step")]))?;
    let (left, right) = match &st[2] {
        syn::Stmt::Expr(syn::Expr::Binary(b), None) if matches!(b.op, syn::BinOp::Or(_)) => (&*b.left, &*b.right),
        o => return Err(format!("Totp::verify: expected `A || B` as the result, found `{}`", toks(o))),
    };
    let mut sides = vec![];
    for (i, side) in [left, right].into_iter().enumerate() {
        let what = format!("Totp::verify side {}", i + 1);
        let (recv, args) = method(side, "unwrap_or", &what)?;
        if args.len() != 1 {
            return Err(format!("{what}: unwrap_or takes one argument"));
        }
        let dflt = match toks(args[0]).as_str() {
            "false" => "false",
            "true" => "true",
            o => return Err(format!("{what}: unexpected default `{o}`")),
        };
        let (recv, args) = method(recv, "map", &what)?;
        if args.len() != 1 {
            return Err(format!("{what}: map takes one closure"));
        }
        let (v, body) = closure1(args[0], &what)?;
        let cmp = lx(body, &vars(&[(&v, "v"), ("chal", "chal")]))?;
        let (recv, args) = method(recv, "digest", &what)?;
        expect_toks(recv, "self", &format!("{what}: receiver"))?;
        if args.len() != 1 {
            return Err(format!("{what}: digest takes one argument"));
        }
        let arg = lx(args[0], &vars(&[("counter", "counter")]))?;
        sides.push((arg, cmp, dflt));
    }
    if sides[0].1 != sides[1].1 || sides[0].2 != sides[1].2 {
        return Err(format!("Totp::verify: the two sides compare differently: {:?}", sides));
    }

    // ---- Totp::do_totp_duration_from_epoch: same counter, `self.digest(counter)`
    let dt = find_fn(&ast, "Totp::do_totp_duration_from_epoch")?;
    let st = &dt.block.stmts;
    if st.len() != 3 {
        return Err("do_totp_duration_from_epoch: expected 3 statements".into());
    }
    expect_toks(local_init(&st[0], "secs", "do_totp_duration_from_epoch")?, "time . as_secs ()", "do_totp_duration_from_epoch secs")?;
    let c2 = lx(local_init(&st[1], "counter", "do_totp_duration_from_epoch")?, &vars(&[("secs", "secs"), ("self.step", "step")]))?;
    if c2 != counter_of {
        return Err(format!("do_totp_duration_from_epoch computes the counter as `{c2}`, verify as `{counter_of}`"));
    }
    expect_toks(&st[2], "self . digest (counter)", "do_totp_duration_from_epoch result")?;

    // ---- emit
    let mut b = String::from("namespace Kanidm.Gen.Totp\n");
    b += &lean_enum("Digits", "variants of `enum TotpDigits`", &dvars);
    b += &lean_enum("Algo", "variants of `enum TotpAlgo`", &avars);
    b += &lean_enum("HashId", "hash functions behind the `crypto_glue` HMAC aliases", &["Sha1".into(), "Sha256".into(), "Sha512".into()]);
    let dbvars: Vec<String> = of_db.iter().map(|(a, _)| a.clone()).collect();
    b += &lean_enum("DbAlgo", "variants of `DbTotpAlgoV1` as matched by `TryFrom<DbTotpV1>`", &dbvars);
    b += &lean_table("Digits.modulus", "`#[repr(u32)]` discriminants of `TotpDigits` (the value of `self.digits as u32`)", "Digits", "Nat", &modulus);
    b += &lean_table("Digits.count", "`impl Into<u8> for TotpDigits`", "Digits", "Nat", &count);
    b += "/-- `impl TryFrom<u8> for TotpDigits` -/\ndef Digits.ofU8 (n : Nat) : Option Digits :=\n";
    for (n, v) in &of_u8 {
        b += &format!("  if n = {n} then some .{v} else\n");
    }
    b += "  none\n";
    b += &lean_table(
        "Algo.hmacHash",
        "`TotpAlgo::digest`: hash of the HMAC built in each arm (`HmacShaN::new_from_slice(key_bytes)`, `update(&counter.to_be_bytes())`, `finalize().into_bytes().to_vec()`)",
        "Algo",
        "HashId",
        &hmac_hash,
    );
    let dot = |t: &[(String, String)]| -> Vec<(String, String)> { t.iter().map(|(a, b)| (a.clone(), format!(".{b}"))).collect() };
    b += &lean_table("Algo.ofProto", "`impl TryFrom<ProtoTotp> for Totp`: algorithm table (the proto enum has the variants of `Algo`)", "Algo", "Algo", &dot(&of_proto));
    b += &lean_table("Algo.toProto", "`Totp::to_proto`: algorithm table", "Algo", "Algo", &dot(&to_proto_t));
    b += &lean_table("Algo.ofDb", "`impl TryFrom<DbTotpV1> for Totp`: algorithm table", "DbAlgo", "Algo", &dot(&of_db));
    b += &lean_table("Algo.toDb", "`Totp::to_dbtotpv1`: algorithm table", "Algo", "DbAlgo", &dot(&to_db_t));
    b += &format!("/-- `value.digits.unwrap_or(N)` in `TryFrom<DbTotpV1>` -/\ndef dbDefaultDigits : Nat := {db_default}\n");
    b += &format!("/-- `counter.to_be_bytes()` with `counter: u64` -/\ndef counterWidth : Nat := 8\ndef counterBigEndian : Bool := {endian}\n");
    b += &format!("/-- `Totp::digest`: `hmac.last().map(|v| .. as usize)` -/\ndef offsetOf (v : Nat) : Nat := {offset_of}\n");
    b += &format!("/-- `Totp::digest`: bounds of `hmac[a..b]` -/\ndef sliceStart (offset : Nat) : Nat := {slice_start}\ndef sliceEnd (offset : Nat) : Nat := {slice_end}\n");
    b += &format!("/-- `let bytes: [u8; N]` -/\ndef arrayLen : Nat := {array_len}\n");
    b += &format!("/-- `u32::from_be_bytes(bytes)` -/\ndef otpBigEndian : Bool := {otp_be}\n");
    b += &format!("/-- `Totp::digest`: the `Ok(..)` expression -/\ndef finalise (otp digits : Nat) : Nat := {finalise}\n");
    b += &format!("/-- `Totp::verify` / `do_totp_duration_from_epoch`: `let counter = ..;` -/\ndef counterOf (secs step : Nat) : Nat := {counter_of}\n");
    b += &format!(
        "/-- `Totp::verify`: arguments of the two `self.digest(..)` calls joined by `||` -/\ndef firstCounter (counter : Int) : Int := {}\ndef secondCounter (counter : Int) : Int := {}\n",
        sides[0].0, sides[1].0
    );
    b += &format!("/-- `.map(|v| ..)` -/\ndef codeMatches (v chal : Nat) : Bool := {}\n", sides[0].1);
    b += &format!("/-- `.unwrap_or(..)` -/\ndef onError : Bool := {}\n", sides[0].2);
    b += "end Kanidm.Gen.Totp\n";
    write_generated(
        out,
        "TotpOps",
        &format!("{REL} (TotpDigits, TotpAlgo::digest, Totp::digest, Totp::verify, conversions)"),
        &b,
    )?;
    Ok(format!(
        "TotpOps: {} digit variants, {} algorithms, offset `{offset_of}`, slice `{slice_start}..{slice_end}`, finalise `{finalise}`, window [{}, {}]",
        dvars.len(),
        avars.len(),
        sides[0].0,
        sides[1].0
    ))
}
