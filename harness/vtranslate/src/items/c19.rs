//! C19 translator item `unique-ops`: the masks, lookups, error arms and marking rules of
//! `plugins/attrunique.rs`, Base's uuid checks, `Entry::to_conflict` / `is_add_conflict` /
//! `resolve_add_conflict`, the plugin registration and the revive path that
//! `KanidmModel/Unique.lean` is parameterised by.  An unrecognised shape is an error.
use crate::util::*;
use quote::ToTokens;
use std::collections::BTreeMap;
use syn::visit::Visit;
use syn::Expr;

pub fn run(item: &str, repo: &str, out: &str) -> Option<Result<String, String>> {
    match item {
        "unique-ops" => Some(unique_ops(repo, out)),
        _ => None,
    }
}

fn squash<T: ToTokens>(t: &T) -> String {
    t.to_token_stream().to_string().chars().filter(|c| !c.is_whitespace()).collect()
}

fn count(hay: &str, needle: &str) -> usize {
    hay.matches(needle).count()
}

/// The comparison between `at_left` and `at_right` found in a block (exactly one expected).
fn at_comparison(block: &syn::Block, what: &str) -> Result<String, String> {
    struct V(Vec<Expr>);
    impl<'ast> Visit<'ast> for V {
        fn visit_expr_binary(&mut self, b: &'ast syn::ExprBinary) {
            let (l, r) = (squash(&b.left), squash(&b.right));
            if (l == "at_left" && r == "at_right") || (l == "at_right" && r == "at_left") {
                self.0.push(Expr::Binary(b.clone()));
            }
            syn::visit::visit_expr_binary(self, b);
        }
    }
    let mut v = V(vec![]);
    v.visit_block(block);
    if v.0.len() != 1 {
        return Err(format!("{what}: expected exactly one comparison of at_left and at_right, found {}", v.0.len()));
    }
    let vars: BTreeMap<String, String> = [("at_left", "atLeft"), ("at_right", "atRight")].iter().map(|(a, b)| (a.to_string(), b.to_string())).collect();
    lean_expr(&v.0[0], &vars).map_err(|e| format!("{what}: {e}"))
}

fn unique_ops(repo: &str, out: &str) -> Result<String, String> {
    // ---- plugins/attrunique.rs
    let ast = parse_file(repo, "server/lib/src/plugins/attrunique.rs")?;
    let gcas = squash(&find_fn(&ast, "get_cand_attr_set")?.block);
    let mask = match count(&gcas, ".filter_map(|e|e.mask_recycled_ts())") {
        1 => true,
        0 => false,
        n => return Err(format!("get_cand_attr_set: {n} masks")),
    };
    if count(&gcas, "forattrinuniqueattrs.iter()") != 1
        || count(&gcas, "forpvinvs.to_partialvalue_iter()") != 1
        || count(&gcas, "letkey=(attr.clone(),pv);") != 1
        || count(&gcas, ".and_modify(|v|{") != 1
        || count(&gcas, "v.push(uuid)") != 1
        || count(&gcas, ".or_insert_with(||vec![uuid]);") != 1
    {
        return Err("get_cand_attr_set: the (attribute, value) -> uuids map is no longer built in the expected shape".into());
    }
    let eu = squash(&find_fn(&ast, "enforce_unique")?.block);
    if count(&eu, "letcand_attr_set=get_cand_attr_set(cand,uniqueattrs)") != 1 || count(&eu, "schema.get_attributes_unique()") != 1 {
        return Err("enforce_unique: candidate claims are no longer taken from get_cand_attr_set over schema.get_attributes_unique()".into());
    }
    let in_request = if count(&eu, "ifletSome(uuid)=uuid_set.pop(){ifuuid_set.is_empty(){cand_attr.push((key,uuid));}else{err_attr.push(key.0);}}") == 1
        && count(&eu, "if!err_attr.is_empty(){returnErr(OperationError::AttributeUniqueness(err_attr));}") == 1
    {
        true
    } else {
        return Err("enforce_unique: in-request duplicate handling not recognised".into());
    };
    let lookup_with_self = "cand_filters.push(f_and(vec![FC::Eq(attr.clone(),v.clone()),f_andnot(FC::Eq(Attribute::Uuid,PartialValue::Uuid(*uuid))),]));";
    let lookup_without_self = "cand_filters.push(f_and(vec![FC::Eq(attr.clone(),v.clone()),]));";
    let excludes_self = if count(&eu, lookup_with_self) == 1 {
        true
    } else if count(&eu, lookup_without_self) == 1 {
        false
    } else {
        return Err("enforce_unique: database lookup filter not recognised".into());
    };
    let live_only = if count(&eu, "letfilt_in=filter!(f_or(cand_filters.clone()));") == 1 {
        true
    } else if count(&eu, "letfilt_in=filter_all!(f_or(cand_filters.clone()));") == 1 {
        false
    } else {
        return Err("enforce_unique: lookup wrapper (filter! / filter_all!) not recognised".into());
    };
    let hit_rejected = if count(&eu, "letconflict_cand=qs.internal_exists(&filt_in)") == 1
        && count(&eu, "ifconflict_cand{") == 1
        && eu.ends_with("Err(OperationError::AttributeUniqueness(err_attr))}else{Ok(())}}")
    {
        true
    } else {
        return Err("enforce_unique: result of the database lookup not recognised".into());
    };
    let mut hooks = true;
    for hook in ["pre_create_transform", "pre_modify", "pre_batch_modify", "pre_repl_refresh"] {
        match find_fn(&ast, &format!("Plugin@AttrUnique::{hook}")) {
            Ok(f) => hooks &= squash(&f.block) == "{enforce_unique(qs,cand)}",
            Err(_) => hooks = false,
        }
    }
    // ---- post_repl_incremental_conflict
    let pr = squash(&find_fn(&ast, "Plugin@AttrUnique::post_repl_incremental_conflict")?.block);
    if count(&pr, "get_cand_attr_set(cand.iter().map(|(e,_)|e),uniqueattrs)") != 1 {
        return Err("post_repl_incremental_conflict: candidate claims not recognised".into());
    }
    let slow_self = "f_and(vec![FC::Eq(attr.clone(),pv.clone()),f_andnot(FC::Eq(Attribute::Uuid,PartialValue::Uuid(uuid))),])";
    let slow_noself = "f_and(vec![FC::Eq(attr.clone(),pv.clone()),])";
    let c_excl = if count(&pr, slow_self) == 1 {
        true
    } else if count(&pr, slow_noself) == 1 {
        false
    } else {
        return Err("post_repl_incremental_conflict: per-candidate search filter not recognised".into());
    };
    let c_live = if count(&pr, "letfilt_in=filter!(f_or(cand_filters.clone()));letfilt_conflicts=qs.internal_search(filt_in)") == 1 {
        true
    } else if count(&pr, "letfilt_in=filter_all!(f_or(cand_filters.clone()));letfilt_conflicts=qs.internal_search(filt_in)") == 1 {
        false
    } else {
        return Err("post_repl_incremental_conflict: per-candidate search not recognised".into());
    };
    if count(&pr, "if!filt_conflicts.is_empty(){") != 1 || count(&pr, "foreinfilt_conflicts{") != 1 {
        return Err("post_repl_incremental_conflict: handling of the search result not recognised".into());
    }
    let marks_partners = count(&pr, "conflict_uuid_map.entry(e.get_uuid()).and_modify(|set|{set.insert(uuid);})") == 1;
    let marks_cand = count(&pr, "conflict_uuid_map.entry(uuid).and_modify(|set|set.append(&mutconflict_uuid_set)).or_insert_with(||conflict_uuid_set);") == 1;
    for needle in [
        "letfilt=filter!(FC::Or(conflict_uuid_map.keys().map(|u|f_eq(Attribute::Uuid,PartialValue::Uuid(*u))).collect()));",
        "letmutwork_set=qs.internal_search_writeable(&filt)?;",
        "entry.to_conflict(conflict_uuid_set.iter().copied())",
        "qs.internal_apply_writable(work_set)",
    ] {
        if count(&pr, needle) != 1 {
            return Err(format!("post_repl_incremental_conflict: expected exactly one `{needle}`"));
        }
    }
    // ---- plugins/base.rs
    let base = parse_file(repo, "server/lib/src/plugins/base.rs")?;
    let bp = squash(&find_fn(&base, "Plugin@Base::pre_create_transform")?.block);
    let base_dup = if count(&bp, "if!cand_uuid.insert(uuid_ref){") == 1 && count(&bp, "\"Uuidduplicatedetectedinrequest\".to_string(),)));}") == 1 {
        true
    } else {
        return Err("Base::pre_create_transform: in-request uuid duplicate check not recognised".into());
    };
    let base_hidden = if count(&bp, "letfilt_in=filter_all!(FC::Or(cand_uuid.into_iter().map(|u|FC::Eq(Attribute::Uuid,PartialValue::Uuid(u))).collect(),));") == 1 {
        true
    } else if count(&bp, "letfilt_in=filter!(FC::Or(cand_uuid.into_iter().map(|u|FC::Eq(Attribute::Uuid,PartialValue::Uuid(u))).collect(),));") == 1 {
        false
    } else {
        return Err("Base::pre_create_transform: uuid existence filter not recognised".into());
    };
    let base_exists = if count(&bp, "letr=qs.internal_exists(&filt_in);matchr{Ok(b)=>{ifb{") == 1 && count(&bp, "\"Uuidduplicatefoundindatabase\".to_string(),)));}") == 1 {
        true
    } else {
        return Err("Base::pre_create_transform: uuid existence result not recognised".into());
    };
    // ---- plugins/mod.rs
    let mods = parse_file(repo, "server/lib/src/plugins/mod.rs")?;
    let mut registered = true;
    for (func, call, last) in [
        ("Plugins::run_pre_create_transform", "attrunique::AttrUnique::pre_create_transform(qs,cand,ce)}", true),
        ("Plugins::run_pre_modify", "attrunique::AttrUnique::pre_modify(qs,pre_cand,cand,me)}", true),
        ("Plugins::run_pre_batch_modify", "attrunique::AttrUnique::pre_batch_modify(qs,pre_cand,cand,me)}", true),
        ("Plugins::run_pre_repl_refresh", "attrunique::AttrUnique::pre_repl_refresh(qs,cand)", false),
        ("Plugins::run_post_repl_incremental_conflict", "attrunique::AttrUnique::post_repl_incremental_conflict(qs,cand,conflict_uuids)", false),
    ] {
        let body = squash(&find_fn(&mods, func)?.block);
        registered &= if last { body.ends_with(call) } else { body.contains(call) };
        if func == "Plugins::run_pre_create_transform" && !body.starts_with("{base::Base::pre_create_transform(qs,cand,ce)?;") {
            return Err("run_pre_create_transform: Base is no longer the first plugin".into());
        }
    }
    // ---- server/recycle.rs
    let rec = parse_file(repo, "server/lib/src/server/recycle.rs")?;
    let rv = squash(&find_fn(&rec, "QueryServerWriteTransaction::revive_recycled")?.block);
    let apply = rv.find("self.modify_apply(mp)?;").ok_or("revive_recycled: modify_apply not found")?;
    let revive_pre = match rv.find("Plugins::run_pre_modify(self,&pre_candidates,&mutcandidates,&me)") {
        Some(p) => p < apply,
        None => false,
    };
    // ---- entry.rs
    let ent = parse_file(repo, "server/lib/src/entry.rs")?;
    let tc = squash(&find_fn(&ent, "to_conflict")?.block);
    if count(&tc, "self.add_ava(Attribute::Class,EntryClass::Conflict.into());") != 1 {
        return Err("to_conflict: class conflict is no longer added".into());
    }
    let hides = count(&tc, "self.add_ava(Attribute::Class,EntryClass::Recycled.into());") == 1;
    let iac = find_fn(&ent, "is_add_conflict")?;
    let iac_s = squash(&iac.block);
    if count(&iac_s, "match(self_cs.current(),db_cs.current()){(State::Live{at:at_left,..},State::Live{at:at_right,..})=>{") != 1 || !iac_s.ends_with("_=>false,}}") {
        return Err("is_add_conflict: match on the two change states not recognised".into());
    }
    let add_when = at_comparison(&iac.block, "is_add_conflict")?;
    let rac = find_fn(&ent, "resolve_add_conflict")?;
    let rac_s = squash(&rac.block);
    let loses = at_comparison(&rac.block, "resolve_add_conflict")?;
    if count(&rac_s, "ifat_left>at_right{trace!(\"RI>DE,returnDE\");(None,Entry{") != 1 && !rac_s.contains("{trace!(\"RI>DE,returnDE\");(None,") {
        return Err("resolve_add_conflict: the arm that keeps the database entry not recognised".into());
    }
    let origin_only = if count(&rac_s, "letconflict=ifat_right.s_uuid==cid.s_uuid{") == 1 {
        true
    } else {
        return Err("resolve_add_conflict: origin test for the conflict copy not recognised".into());
    };
    for needle in [
        "cnf_ent.add_ava(Attribute::SourceUuid,Value::Uuid(db_ent.valid.uuid));",
        "letnew_uuid=Uuid::new_v4();",
        "cnf_ent.add_ava(Attribute::Class,EntryClass::Recycled.into());",
        "cnf_ent.add_ava(Attribute::Class,EntryClass::Conflict.into());",
    ] {
        if count(&rac_s, needle) != 1 {
            return Err(format!("resolve_add_conflict: expected exactly one `{needle}`"));
        }
    }
    let b = |x: bool| if x { "true" } else { "false" };
    let body = format!(
        "namespace Kanidm.Gen.UniqueOps\n\
/-- attrunique::get_cand_attr_set: `.filter_map(|e| e.mask_recycled_ts())` — recycled and tombstoned candidates claim nothing -/\n\
def candMaskHidesRecycled : Bool := {mask}\n\
/-- attrunique::enforce_unique: a value claimed by more than one candidate uuid is an error (`uuid_set.is_empty()` after one pop, else `err_attr.push`) -/\n\
def inRequestDupRejected : Bool := {inreq}\n\
/-- attrunique::enforce_unique: per claim `f_and([Eq(attr, v), f_andnot(Eq(Uuid, uuid))])` — the claimant itself is excluded -/\n\
def dbLookupExcludesSelf : Bool := {excl}\n\
/-- attrunique::enforce_unique: the lookup uses `filter!` (live entries only), not `filter_all!` -/\n\
def dbLookupLiveOnly : Bool := {live}\n\
/-- attrunique::enforce_unique: `if conflict_cand {{ … Err(AttributeUniqueness) }} else {{ Ok(()) }}` -/\n\
def dbHitRejected : Bool := {hit}\n\
/-- Base::pre_create_transform: `if !cand_uuid.insert(uuid_ref) {{ return Err(..) }}` -/\n\
def baseRejectsRequestDup : Bool := {bdup}\n\
/-- Base::pre_create_transform: existence lookup uses `filter_all!` (recycled and tombstones included) and `if b {{ return Err(..) }}` -/\n\
def baseLooksAtHidden : Bool := {bhid}\n\
def baseRejectsExisting : Bool := {bex}\n\
/-- plugins/mod.rs: attrunique::AttrUnique is called by run_pre_create_transform, run_pre_modify, run_pre_batch_modify, run_pre_repl_refresh and run_post_repl_incremental_conflict -/\n\
def pluginRegistered : Bool := {reg}\n\
/-- server/recycle.rs revive_recycled: `Plugins::run_pre_modify` (hence enforce_unique) runs on the revived candidates before the write -/\n\
def reviveRunsPreModify : Bool := {rev}\n\
/-- AttrUnique::post_repl_incremental_conflict: the candidate (`conflict_uuid_map.entry(uuid)`) and every entry found (`conflict_uuid_map.entry(e.get_uuid())`) are both marked -/\n\
def conflictMarksCandidate : Bool := {mc}\n\
def conflictMarksPartners : Bool := {mp}\n\
/-- AttrUnique::post_repl_incremental_conflict: partners are searched with `filter!` (live entries only), excluding the candidate's own uuid -/\n\
def conflictSearchLiveOnly : Bool := {cl}\n\
def conflictSearchExcludesSelf : Bool := {ce}\n\
/-- Entry::to_conflict adds the classes `recycled` and `conflict` -/\n\
def toConflictHides : Bool := {hides}\n\
/-- Entry::is_add_conflict: both live and `at_left != at_right` -/\n\
def addConflictWhen (atLeft atRight : Nat) : Bool := {addw}\n\
/-- Entry::resolve_add_conflict: `if at_left > at_right` the incoming entry loses and the database entry is kept -/\n\
def incomingLoses (atLeft atRight : Nat) : Bool := {loses}\n\
/-- Entry::resolve_add_conflict: the conflict copy is created `if at_right.s_uuid == cid.s_uuid` (only on the loser's origin) -/\n\
def copyOnlyAtOrigin : Bool := {orig}\n\
end Kanidm.Gen.UniqueOps\n",
        mask = b(mask),
        inreq = b(in_request),
        excl = b(excludes_self),
        live = b(live_only),
        hit = b(hit_rejected),
        bdup = b(base_dup),
        bhid = b(base_hidden),
        bex = b(base_exists),
        reg = b(registered && hooks),
        rev = b(revive_pre),
        mc = b(marks_cand),
        mp = b(marks_partners),
        cl = b(c_live),
        ce = b(c_excl),
        hides = b(hides),
        addw = add_when,
        loses = loses,
        orig = b(origin_only),
    );
    write_generated(
        out,
        "UniqueOps",
        "server/lib/src/plugins/attrunique.rs + server/lib/src/plugins/base.rs + server/lib/src/entry.rs + server/lib/src/plugins/mod.rs + server/lib/src/server/recycle.rs",
        &body,
    )?;
    Ok(format!(
        "UniqueOps: mask {mask}, in-request {in_request}, excl-self {excludes_self}, live-only {live_only}, base dup/hidden/exists {base_dup}/{base_hidden}/{base_exists}, registered {}, revive {revive_pre}, marks cand/partners {marks_cand}/{marks_partners}, search live/excl {c_live}/{c_excl}, to_conflict hides {hides}, add-conflict `{add_when}`, incoming loses `{loses}`, copy at origin {origin_only}",
        registered && hooks
    ))
}
