//! C37 translator item `intent-ops`: the table-like and operator-like parts of the credential
//! reset link ("intent token") state machine, re-read from
//! `server/lib/src/idm/credupdatesession.rs` and `server/lib/src/value.rs` on every run:
//!  * the four TTL constants;
//!  * `enum IntentTokenState`: exactly the variants Valid / InProgress / Consumed;
//!  * `build_credential_update_intent`: `unwrap_or(DEFAULT)`, `clamp(MIN, MAX)`, `ct + clamped_mttl`,
//!    the purge comparison;
//!  * `exchange_intent_credential_update`, `commit_credential_update`, `cancel_credential_update`,
//!    `revoke_credential_update_intent`: every arm of the `match` on the stored link state
//!    (pattern ↦ return Err(e) / goes on / session-id test then return Err(e) / return None), the
//!    session-id test's operator, the `IntentTokenState` variant written back by `Modify::Present`
//!    (with a `Modify::Removed` before it), the expiry comparison, the session id and session_ttl
//!    expressions;
//!  * `init_credential_update`, `create_credupdate_session`, `expire_credential_update_sessions`,
//!    `credential_update_commit_common`, `get_current_session`: session id / token expiry
//!    expressions, the expiry comparisons, expire-before-insert and expiry-before-remove order.
//! Any shape it does not recognise is an `Err` (never a guess).
use super::vars;
use crate::util::*;
use quote::ToTokens;
use syn::visit::Visit;

const SRC: &str = "server/lib/src/idm/credupdatesession.rs";
const VALUE: &str = "server/lib/src/value.rs";
const TXN: &str = "IdmServerProxyWriteTransaction";

pub fn run(item: &str, repo: &str, out: &str) -> Option<Result<String, String>> {
    match item {
        "intent-ops" => Some(ops(repo, out)),
        _ => None,
    }
}

fn toks<T: ToTokens>(t: &T) -> String {
    t.to_token_stream().to_string()
}

fn tag_of_variant(v: &str) -> Result<&'static str, String> {
    match v {
        "Valid" => Ok(".valid"),
        "InProgress" => Ok(".inProgress"),
        "Consumed" => Ok(".consumed"),
        o => Err(format!("unknown IntentTokenState variant `{o}` (the Lean enumeration must be extended)")),
    }
}

fn err_of_variant(v: &str) -> Result<&'static str, String> {
    match v {
        "Wait" => Ok(".wait"),
        "InvalidState" => Ok(".invalidState"),
        "SessionExpired" => Ok(".sessionExpired"),
        "CU0004SessionInconsistent" => Ok(".cu0004SessionInconsistent"),
        "CU0005IntentTokenConflict" => Ok(".cu0005IntentTokenConflict"),
        "CU0006IntentTokenInvalidated" => Ok(".cu0006IntentTokenInvalidated"),
        "EmptyRequest" => Ok(".emptyRequest"),
        o => Err(format!("OperationError::{o} is not in the model's `Err` enumeration (extend it)")),
    }
}

/// `IntentTokenState::X { .. }` possibly wrapped in `Some(..)`; `None` ↦ absent.
fn tags_of_pat(p: &syn::Pat, out: &mut Vec<&'static str>) -> Result<(), String> {
    match p {
        syn::Pat::Or(o) => {
            for c in &o.cases {
                tags_of_pat(c, out)?;
            }
            Ok(())
        }
        syn::Pat::Paren(p) => tags_of_pat(&p.pat, out),
        syn::Pat::Reference(r) => tags_of_pat(&r.pat, out),
        syn::Pat::TupleStruct(t) => {
            let name = t.path.segments.last().map(|s| s.ident.to_string()).unwrap_or_default();
            if name == "Some" && t.elems.len() == 1 {
                tags_of_pat(&t.elems[0], out)
            } else {
                Err(format!("unexpected pattern `{}`", toks(p)))
            }
        }
        syn::Pat::Struct(s) => {
            let segs: Vec<String> = s.path.segments.iter().map(|x| x.ident.to_string()).collect();
            if segs.len() >= 2 && segs[segs.len() - 2] == "IntentTokenState" {
                out.push(tag_of_variant(&segs[segs.len() - 1])?);
                Ok(())
            } else {
                Err(format!("unexpected pattern `{}`", toks(p)))
            }
        }
        syn::Pat::Ident(i) if i.ident == "None" && i.subpat.is_none() => {
            out.push(".absent");
            Ok(())
        }
        syn::Pat::Path(pp) if pp.path.is_ident("None") => {
            out.push(".absent");
            Ok(())
        }
        _ => Err(format!("unexpected pattern `{}` (wildcards are not accepted: every state must be named)", toks(p))),
    }
}

#[derive(Debug, Clone)]
enum ArmKind {
    Reject(&'static str),
    Proceed,
    /// (error, rendered condition source)
    CheckSession(&'static str, syn::Expr),
    Skip,
}

/// Returns of an arm body together with the `if` conditions enclosing them (then-branch only).
struct Returns {
    stack: Vec<(syn::Expr, bool)>,
    found: Vec<(Vec<(syn::Expr, bool)>, String)>,
    closures: usize,
}

impl<'ast> Visit<'ast> for Returns {
    fn visit_expr_if(&mut self, i: &'ast syn::ExprIf) {
        self.visit_expr(&i.cond);
        self.stack.push(((*i.cond).clone(), true));
        self.visit_block(&i.then_branch);
        self.stack.pop();
        if let Some((_, e)) = &i.else_branch {
            self.stack.push(((*i.cond).clone(), false));
            self.visit_expr(e);
            self.stack.pop();
        }
    }
    fn visit_expr_return(&mut self, r: &'ast syn::ExprReturn) {
        let what = r.expr.as_ref().map(|e| toks(e)).unwrap_or_default();
        self.found.push((self.stack.clone(), what));
    }
    fn visit_expr_closure(&mut self, c: &'ast syn::ExprClosure) {
        self.closures += 1;
        syn::visit::visit_expr_closure(self, c);
    }
    fn visit_expr_try(&mut self, t: &'ast syn::ExprTry) {
        // `?` inside an arm would be another exit
        self.found.push((self.stack.clone(), format!("? on {}", toks(&t.expr))));
    }
}

fn err_variant_of_return(what: &str) -> Option<String> {
    // `Err (OperationError :: X)`
    let w: String = what.split_whitespace().collect();
    let rest = w.strip_prefix("Err(OperationError::")?;
    let name = rest.strip_suffix(')')?;
    if name.chars().all(|c| c.is_alphanumeric()) {
        Some(name.to_string())
    } else {
        None
    }
}

fn classify(body: &syn::Expr, fname: &str) -> Result<ArmKind, String> {
    let mut v = Returns { stack: vec![], found: vec![], closures: 0 };
    v.visit_expr(body);
    if v.closures > 0 {
        return Err(format!("{fname}: closure inside a link-state arm"));
    }
    match v.found.len() {
        0 => Ok(ArmKind::Proceed),
        1 => {
            let (stack, what) = &v.found[0];
            let w: String = what.split_whitespace().collect();
            match stack.len() {
                0 => {
                    if w == "None" {
                        Ok(ArmKind::Skip)
                    } else if let Some(e) = err_variant_of_return(what) {
                        Ok(ArmKind::Reject(err_of_variant(&e)?))
                    } else {
                        Err(format!("{fname}: unrecognised exit `return {what}` in a link-state arm"))
                    }
                }
                1 => {
                    let (cond, then_branch) = &stack[0];
                    if !*then_branch {
                        return Err(format!("{fname}: `return` in the else branch of `if {}`", toks(cond)));
                    }
                    let c = toks(cond);
                    if !(c.contains("session_id") && c.contains("sessionid")) {
                        return Err(format!("{fname}: the test `{c}` guarding a return is not the session-id test"));
                    }
                    let e = err_variant_of_return(what).ok_or_else(|| format!("{fname}: unrecognised exit `return {what}`"))?;
                    Ok(ArmKind::CheckSession(err_of_variant(&e)?, cond.clone()))
                }
                _ => Err(format!("{fname}: nested tests around a return in a link-state arm")),
            }
        }
        n => Err(format!("{fname}: {n} exits in one link-state arm")),
    }
}

/// The `match` whose scrutinee contains `needle`; exactly one in the function.
fn find_match(f: &FoundFn, needle: &str, fname: &str) -> Result<syn::ExprMatch, String> {
    struct V<'a>(&'a str, Vec<syn::ExprMatch>);
    impl<'a, 'ast> Visit<'ast> for V<'a> {
        fn visit_expr_match(&mut self, m: &'ast syn::ExprMatch) {
            let s: String = toks(&m.expr).split_whitespace().collect();
            if s.contains(self.0) {
                self.1.push(m.clone());
            }
            syn::visit::visit_expr_match(self, m);
        }
    }
    let mut v = V(needle, vec![]);
    v.visit_block(&f.block);
    match v.1.len() {
        1 => Ok(v.1.remove(0)),
        n => Err(format!("{fname}: expected exactly one `match` on `{needle}`, found {n}")),
    }
}

struct ArmTable {
    rows: Vec<(&'static str, ArmKind)>,
}

fn arm_table(m: &syn::ExprMatch, fname: &str, expect: &[&'static str]) -> Result<ArmTable, String> {
    let mut rows: Vec<(&'static str, ArmKind)> = vec![];
    for a in &m.arms {
        if a.guard.is_some() {
            return Err(format!("{fname}: guard on a link-state arm"));
        }
        let mut tags = vec![];
        tags_of_pat(&a.pat, &mut tags).map_err(|e| format!("{fname}: {e}"))?;
        let kind = classify(&a.body, fname)?;
        for t in tags {
            if rows.iter().any(|(x, _)| *x == t) {
                return Err(format!("{fname}: state {t} matched twice"));
            }
            rows.push((t, kind.clone()));
        }
    }
    for e in expect {
        if !rows.iter().any(|(x, _)| x == e) {
            return Err(format!("{fname}: no arm for state {e}"));
        }
    }
    if rows.len() != expect.len() {
        return Err(format!("{fname}: unexpected arms {:?}", rows.iter().map(|r| r.0).collect::<Vec<_>>()));
    }
    Ok(ArmTable { rows })
}

fn render_table(name: &str, doc: &str, t: &ArmTable, allowed: &[&str], fname: &str) -> Result<String, String> {
    let mut b = format!("/-- {doc} -/\ndef {name} : Tag → Arm\n");
    for (tag, k) in &t.rows {
        let (kind, s) = match k {
            ArmKind::Reject(e) => ("reject", format!(".reject {e}")),
            ArmKind::Proceed => ("proceed", ".proceed".to_string()),
            ArmKind::CheckSession(e, _) => ("checkSession", format!(".checkSession {e}")),
            ArmKind::Skip => ("skip", ".skip".to_string()),
        };
        if !allowed.contains(&kind) {
            return Err(format!("{fname}: a `{kind}` arm is not meaningful in this function"));
        }
        b += &format!("  | {tag} => {s}\n");
    }
    Ok(b)
}

/// The session-id test of the (single) checkSession arm as a Lean operator on (stored, token).
fn conflict_op(t: &ArmTable, fname: &str) -> Result<(String, String), String> {
    let conds: Vec<&syn::Expr> = t.rows.iter().filter_map(|(_, k)| match k {
        ArmKind::CheckSession(_, c) => Some(c),
        _ => None,
    }).collect();
    if conds.len() != 1 {
        return Err(format!("{fname}: expected exactly one arm with a session-id test, found {}", conds.len()));
    }
    let v = vars(&[("session_id", "stored"), ("session_token.sessionid", "token")]);
    let lean = lean_expr(conds[0], &v).map_err(|e| format!("{fname}: {e}"))?;
    Ok((toks(conds[0]), lean))
}

/// The `IntentTokenState::X { .. }` struct *expressions* of a function (patterns are not expressions).
fn written_states(f: &FoundFn) -> Vec<syn::ExprStruct> {
    struct V(Vec<syn::ExprStruct>);
    impl<'ast> Visit<'ast> for V {
        fn visit_expr_struct(&mut self, s: &'ast syn::ExprStruct) {
            let segs: Vec<String> = s.path.segments.iter().map(|x| x.ident.to_string()).collect();
            if segs.len() >= 2 && segs[segs.len() - 2] == "IntentTokenState" {
                self.0.push(s.clone());
            }
            syn::visit::visit_expr_struct(self, s);
        }
    }
    let mut v = V(vec![]);
    v.visit_block(&f.block);
    v.0
}

/// The single written state of a transition function + the Removed-before-Present discipline.
fn written(f: &FoundFn, fname: &str) -> Result<(&'static str, syn::ExprStruct), String> {
    let ws = written_states(f);
    if ws.len() != 1 {
        return Err(format!("{fname}: expected exactly one written IntentTokenState value, found {}", ws.len()));
    }
    let variant = ws[0].path.segments.last().map(|s| s.ident.to_string()).unwrap_or_default();
    let tag = tag_of_variant(&variant)?;
    if ws[0].rest.is_some() {
        return Err(format!("{fname}: struct update syntax in the written state"));
    }
    // every field must be carried over from the binding of the same name, except session_ttl
    for fld in &ws[0].fields {
        let name = match &fld.member {
            syn::Member::Named(i) => i.to_string(),
            _ => return Err(format!("{fname}: positional field in the written state")),
        };
        if name == "session_ttl" {
            continue;
        }
        let val: String = toks(&fld.expr).split_whitespace().collect();
        if val != name {
            return Err(format!("{fname}: written field `{name}` is `{val}`, not the value read from the stored state"));
        }
    }
    let body: String = toks(&f.block).split_whitespace().collect();
    let removed = "Modify::Removed(Attribute::CredentialUpdateIntentToken,PartialValue::IntentToken(";
    let present = "Modify::Present(Attribute::CredentialUpdateIntentToken,Value::IntentToken(";
    let (nr, np) = (body.matches(removed).count(), body.matches(present).count());
    if nr != 1 || np != 1 {
        return Err(format!("{fname}: expected one Modify::Removed and one Modify::Present of the link, found {nr} and {np}"));
    }
    if body.find(removed) > body.find(present) {
        return Err(format!("{fname}: Modify::Present of the link precedes its Modify::Removed (insert_checked would keep the old state)"));
    }
    Ok((tag, ws[0].clone()))
}

/// `let <name> = <expr>;` anywhere in the function (first match; must be unique).
fn let_init(f: &FoundFn, name: &str, fname: &str) -> Result<syn::Expr, String> {
    struct V<'a>(&'a str, Vec<syn::Expr>);
    impl<'a, 'ast> Visit<'ast> for V<'a> {
        fn visit_local(&mut self, l: &'ast syn::Local) {
            if let syn::Pat::Ident(i) = &l.pat {
                if i.ident == self.0 {
                    if let Some(init) = &l.init {
                        self.1.push((*init.expr).clone());
                    }
                }
            }
            syn::visit::visit_local(self, l);
        }
    }
    let mut v = V(name, vec![]);
    v.visit_block(&f.block);
    match v.1.len() {
        1 => Ok(v.1.remove(0)),
        n => Err(format!("{fname}: expected exactly one `let {name} = …`, found {n}")),
    }
}

/// `uuid_from_duration(<time>, self.sid)` ↦ the time expression.
fn uuid_time(e: &syn::Expr, fname: &str) -> Result<syn::Expr, String> {
    if let syn::Expr::Call(c) = e {
        let f = path_string(&c.func).unwrap_or_default();
        if f.ends_with("uuid_from_duration") && c.args.len() == 2 {
            let sid: String = toks(&c.args[1]).split_whitespace().collect();
            if sid != "self.sid" {
                return Err(format!("{fname}: session id is not built from `self.sid` but `{sid}`"));
            }
            return Ok(c.args[0].clone());
        }
    }
    Err(format!("{fname}: `{}` is not `uuid_from_duration(<instant>, self.sid)`", toks(e)))
}

fn squeeze<T: ToTokens>(t: &T) -> String {
    toks(t).split_whitespace().collect()
}

fn single_if(f: &FoundFn, fname: &str) -> Result<syn::Expr, String> {
    let c = if_conditions(&f.block);
    if c.len() != 1 {
        return Err(format!("{fname}: expected exactly one `if`, found {}", c.len()));
    }
    Ok(c[0].clone())
}

fn ops(repo: &str, out: &str) -> Result<String, String> {
    let ast = parse_file(repo, SRC)?;
    let vast = parse_file(repo, VALUE)?;

    // ---- constants
    let env = |n: &str| -> Option<i128> {
        find_const(&ast, n).and_then(|e| eval_int(&e, &|_| None).ok())
    };
    let konst = |n: &str| -> Result<i128, String> {
        let e = find_const(&ast, n).ok_or_else(|| format!("const {n} not found"))?;
        eval_int(&e, &env).map_err(|e| format!("{n}: {e}"))
    };
    let cu = konst("MAXIMUM_CRED_UPDATE_TTL")?;
    let mn = konst("MINIMUM_INTENT_TTL")?;
    let df = konst("DEFAULT_INTENT_TTL")?;
    let mx = konst("MAXIMUM_INTENT_TTL")?;

    // ---- enum IntentTokenState
    let mut variants: Vec<String> = vec![];
    for it in &vast.items {
        if let syn::Item::Enum(e) = it {
            if e.ident == "IntentTokenState" {
                variants = e.variants.iter().map(|v| v.ident.to_string()).collect();
            }
        }
    }
    let mut sorted = variants.clone();
    sorted.sort();
    if sorted != ["Consumed", "InProgress", "Valid"] {
        return Err(format!("enum IntentTokenState has variants {variants:?}, the model knows Valid / InProgress / Consumed"));
    }

    // ---- build_credential_update_intent
    let bf = find_fn(&ast, &format!("{TXN}::build_credential_update_intent"))?;
    let n = "build_credential_update_intent";
    if squeeze(&let_init(&bf, "mttl", n)?) != "max_ttl.unwrap_or(DEFAULT_INTENT_TTL)" {
        return Err(format!("{n}: `let mttl` is not `max_ttl.unwrap_or(DEFAULT_INTENT_TTL)`"));
    }
    if squeeze(&let_init(&bf, "clamped_mttl", n)?) != "mttl.clamp(MINIMUM_INTENT_TTL,MAXIMUM_INTENT_TTL)" {
        return Err(format!("{n}: `let clamped_mttl` is not `mttl.clamp(MINIMUM_INTENT_TTL, MAXIMUM_INTENT_TTL)`"));
    }
    // `let max_ttl = ct + clamped_mttl;` (the closure rebinding `max_ttl` from a match is a second one)
    let max_ttl_lets: Vec<syn::Expr> = {
        struct V(Vec<syn::Expr>);
        impl<'ast> Visit<'ast> for V {
            fn visit_local(&mut self, l: &'ast syn::Local) {
                if let syn::Pat::Ident(i) = &l.pat {
                    if i.ident == "max_ttl" {
                        if let Some(init) = &l.init {
                            if !matches!(*init.expr, syn::Expr::Match(_)) {
                                self.0.push((*init.expr).clone());
                            }
                        }
                    }
                }
                syn::visit::visit_local(self, l);
            }
        }
        let mut v = V(vec![]);
        v.visit_block(&bf.block);
        v.0
    };
    if max_ttl_lets.len() != 1 {
        return Err(format!("{n}: expected one `let max_ttl = <arith>`, found {}", max_ttl_lets.len()));
    }
    let intent_max_ttl = lean_expr(&max_ttl_lets[0], &vars(&[("ct", "ct"), ("clamped_mttl", "clamped")])).map_err(|e| format!("{n}: {e}"))?;
    let ws = written_states(&bf);
    if ws.len() != 1 || ws[0].path.segments.last().map(|s| s.ident.to_string()).as_deref() != Some("Valid") {
        return Err(format!("{n}: the new link is not written as IntentTokenState::Valid"));
    }
    let purge_c = single_if(&bf, n)?;
    let purge = lean_expr(&purge_c, &vars(&[("ct", "ct"), ("max_ttl", "maxTtl")])).map_err(|e| format!("{n}: {e}"))?;
    if !squeeze(&bf.block).contains("modlist.push_mod(Modify::Removed(Attribute::CredentialUpdateIntentToken,PartialValue::IntentToken(existing_intent_id.clone()),))") {
        return Err(format!("{n}: the purge does not remove `existing_intent_id`"));
    }

    // ---- exchange_intent_credential_update
    let xf = find_fn(&ast, &format!("{TXN}::exchange_intent_credential_update"))?;
    let n = "exchange_intent_credential_update";
    let xm = find_match(&xf, "credential_update_intent_tokens.get(", n)?;
    let xt = arm_table(&xm, n, &[".consumed", ".inProgress", ".valid", ".absent"])?;
    let x_tbl = render_table("exchangeArm", "exchange_intent_credential_update: arms of `match account.credential_update_intent_tokens.get(&intent_id)`", &xt, &["reject", "proceed"], n)?;
    let (x_tag, x_struct) = written(&xf, n)?;
    // the one top-level `if` of the body is the expiry test
    let top_ifs: Vec<&syn::ExprIf> = xf.block.stmts.iter().filter_map(|s| match s {
        syn::Stmt::Expr(syn::Expr::If(i), _) => Some(i),
        _ => None,
    }).collect();
    if top_ifs.len() != 1 {
        return Err(format!("{n}: expected exactly one top-level `if` (the expiry test), found {}", top_ifs.len()));
    }
    if !squeeze(&top_ifs[0].then_branch).contains("returnErr(OperationError::SessionExpired)") {
        return Err(format!("{n}: the expiry test does not return SessionExpired"));
    }
    let x_exp_src = toks(&*top_ifs[0].cond);
    let x_exp = lean_expr(&top_ifs[0].cond, &vars(&[("current_time", "ct"), ("max_ttl", "maxTtl")])).map_err(|e| format!("{n}: {e}"))?;
    // the expiry test must come after the state match and before the write
    {
        let body = squeeze(&xf.block);
        let p_match = body.find("credential_update_intent_tokens.get(").unwrap_or(usize::MAX);
        let p_if = body.find(&squeeze(&*top_ifs[0].cond)).unwrap_or(0);
        let p_write = body.find("Modify::Present(").unwrap_or(0);
        if !(p_match < p_if && p_if < p_write) {
            return Err(format!("{n}: order is not state match, expiry test, write"));
        }
    }
    let tv = vars(&[("current_time", "ct"), ("MAXIMUM_CRED_UPDATE_TTL", "ttl")]);
    let x_sess_time = lean_expr(&uuid_time(&let_init(&xf, "session_id", n)?, n)?, &tv).map_err(|e| format!("{n}: {e}"))?;
    let x_sess_ttl = {
        let fld = x_struct.fields.iter().find(|f| matches!(&f.member, syn::Member::Named(i) if i == "session_ttl"));
        match (x_tag, fld) {
            (".inProgress", Some(f)) => lean_expr(&f.expr, &tv).map_err(|e| format!("{n}: {e}"))?,
            (".inProgress", None) => return Err(format!("{n}: written InProgress has no session_ttl")),
            _ => "(ct + ttl)".to_string(),
        }
    };
    if !squeeze(&xf.block).contains("self.create_credupdate_session(session_id,Some(intent_id),account,resolved_account_policy,perms,current_time,)") {
        return Err(format!("{n}: unexpected create_credupdate_session call"));
    }

    // ---- init_credential_update
    let df_ = find_fn(&ast, &format!("{TXN}::init_credential_update"))?;
    let n = "init_credential_update";
    let d_sess_time = lean_expr(&uuid_time(&let_init(&df_, "sessionid", n)?, n)?, &tv).map_err(|e| format!("{n}: {e}"))?;
    if !squeeze(&df_.block).contains("self.create_credupdate_session(sessionid,None,account,resolved_account_policy,perms,current_time,)") {
        return Err(format!("{n}: unexpected create_credupdate_session call"));
    }

    // ---- create_credupdate_session
    let cf = find_fn(&ast, &format!("{TXN}::create_credupdate_session"))?;
    let n = "create_credupdate_session";
    let tok_max = lean_expr(&let_init(&cf, "max_ttl", n)?, &vars(&[("ct", "ct"), ("MAXIMUM_CRED_UPDATE_TTL", "ttl")])).map_err(|e| format!("{n}: {e}"))?;
    {
        let body = squeeze(&cf.block);
        if !body.contains("CredentialUpdateSessionTokenInner{sessionid,max_ttl}") {
            return Err(format!("{n}: token is not `CredentialUpdateSessionTokenInner {{ sessionid, max_ttl }}`"));
        }
        let p_exp = body.find("self.expire_credential_update_sessions(ct)");
        let p_ins = body.find("self.cred_update_sessions.insert(sessionid,session)");
        match (p_exp, p_ins) {
            (Some(a), Some(b)) if a < b => {}
            _ => return Err(format!("{n}: expected expire_credential_update_sessions(ct) before cred_update_sessions.insert(sessionid, session)")),
        }
        if !body.contains("intent_token_id,") {
            return Err(format!("{n}: the session does not record intent_token_id"));
        }
    }

    // ---- expire_credential_update_sessions
    let ef = find_fn(&ast, &format!("{TXN}::expire_credential_update_sessions"))?;
    let n = "expire_credential_update_sessions";
    let split = lean_expr(&uuid_time(&let_init(&ef, "split_at", n)?, n)?, &vars(&[("ct", "ct")])).map_err(|e| format!("{n}: {e}"))?;
    if !squeeze(&ef.block).contains("self.cred_update_sessions.split_off_lt(&split_at)") {
        return Err(format!("{n}: no `cred_update_sessions.split_off_lt(&split_at)`"));
    }

    // ---- credential_update_commit_common / get_current_session
    let mv = vars(&[("ct", "ct"), ("session_token.max_ttl", "maxTtl")]);
    let ccf = find_fn(&ast, &format!("{TXN}::credential_update_commit_common"))?;
    let n = "credential_update_commit_common";
    let cc_c = single_if(&ccf, n)?;
    let cc_exp = lean_expr(&cc_c, &mv).map_err(|e| format!("{n}: {e}"))?;
    {
        let body = squeeze(&ccf.block);
        let p_if = body.find(&squeeze(&cc_c));
        let p_rm = body.find("self.cred_update_sessions.remove(&session_token.sessionid)");
        match (p_if, p_rm) {
            (Some(a), Some(b)) if a < b => {}
            _ => return Err(format!("{n}: expected the expiry test before cred_update_sessions.remove(&session_token.sessionid)")),
        }
    }
    let gf = find_fn(&ast, "IdmServerCredUpdateTransaction::get_current_session")?;
    let n = "get_current_session";
    let g_c = single_if(&gf, n)?;
    let g_exp = lean_expr(&g_c, &mv).map_err(|e| format!("{n}: {e}"))?;
    if !squeeze(&gf.block).contains("self.cred_update_sessions.get(&session_token.sessionid)") {
        return Err(format!("{n}: no `cred_update_sessions.get(&session_token.sessionid)`"));
    }

    // ---- commit / cancel
    let mut cc = String::new();
    for (fname, arm_name, conf_name, writes_name) in [
        ("commit_credential_update", "commitArm", "commitConflict", "commitWrites"),
        ("cancel_credential_update", "cancelArm", "cancelConflict", "cancelWrites"),
    ] {
        let f = find_fn(&ast, &format!("{TXN}::{fname}"))?;
        let m = find_match(&f, "credential_update_intent_tokens.get(", fname)?;
        let t = arm_table(&m, fname, &[".inProgress", ".consumed", ".valid", ".absent"])?;
        cc += &render_table(arm_name, &format!("{fname}: arms of `match account.credential_update_intent_tokens.get(intent_token_id)`"), &t, &["reject", "proceed", "checkSession"], fname)?;
        let (src, lean) = conflict_op(&t, fname)?;
        cc += &format!("/-- {fname}: `{src}` -/\ndef {conf_name} (stored token : SessId) : Bool := {lean}\n");
        let (tag, _) = written(&f, fname)?;
        cc += &format!("/-- {fname}: the state written by `Modify::Present` -/\ndef {writes_name} : Tag := {tag}\n");
        // the state match must sit under `if let Some(intent_token_id) = &session.intent_token_id`
        if !squeeze(&f.block).contains("ifletSome(intent_token_id)=&session.intent_token_id{") {
            return Err(format!("{fname}: the link test is not under `if let Some(intent_token_id) = &session.intent_token_id`"));
        }
        if !squeeze(&f.block).contains("self.credential_update_commit_common(cust,ct)?") {
            return Err(format!("{fname}: does not start from credential_update_commit_common(cust, ct)?"));
        }
    }

    // ---- revoke
    let rf = find_fn(&ast, &format!("{TXN}::revoke_credential_update_intent"))?;
    let n = "revoke_credential_update_intent";
    let rm = find_match(&rf, "intenttoken", n)?;
    let mut rt = arm_table(&rm, n, &[".consumed", ".inProgress", ".valid"])?;
    // the `let Some(intenttoken) = … else { …; return None; }` in front of the match is the absent arm
    {
        let body = squeeze(&rf.block);
        if !body.contains("letSome(intenttoken)=intenttokens.and_then(|m|m.get(&intent_id))else{debug_assert!(false);returnNone;}") {
            return Err(format!("{n}: the `let Some(intenttoken) = … else {{ return None }}` guard has changed"));
        }
        if !body.contains("self.qs_write.internal_batch_modify(batch_mod.into_iter())") {
            return Err(format!("{n}: the batch is not handed to internal_batch_modify"));
        }
    }
    rt.rows.push((".absent", ArmKind::Skip));
    // closures: the arm classifier refuses closures inside arms, the match itself sits in one: fine
    let r_tbl = render_table("revokeArm", "revoke_credential_update_intent: arms of `match intenttoken` (`skip` = `return None`: entry left alone); absent = the `let … else` guard", &rt, &["proceed", "skip"], n)?;
    let (r_tag, _) = written(&rf, n)?;

    // ---- emit
    let mut b = String::new();
    b += "namespace Kanidm.Gen.Intent\nopen Kanidm.Intent\n";
    b += &format!("/-- `const MAXIMUM_CRED_UPDATE_TTL` (seconds) -/\ndef credUpdateTtlSecs : Nat := {cu}\n");
    b += &format!("/-- `const MINIMUM_INTENT_TTL` (seconds) -/\ndef minIntentTtlSecs : Nat := {mn}\n");
    b += &format!("/-- `const DEFAULT_INTENT_TTL` (seconds) -/\ndef defaultIntentTtlSecs : Nat := {df}\n");
    b += &format!("/-- `const MAXIMUM_INTENT_TTL` (seconds) -/\ndef maxIntentTtlSecs : Nat := {mx}\n");
    b += &format!("/-- build_credential_update_intent: `{}` (after `unwrap_or(DEFAULT_INTENT_TTL)` and `clamp(MINIMUM_INTENT_TTL, MAXIMUM_INTENT_TTL)`) -/\ndef intentMaxTtl (ct clamped : Nat) : Nat := {intent_max_ttl}\n", toks(&max_ttl_lets[0]));
    b += &format!("/-- build_credential_update_intent, removal of old links: `{}` -/\ndef purgeOld (ct maxTtl : Nat) : Bool := {purge}\n", toks(&purge_c));
    b += &format!("/-- exchange_intent_credential_update: `{x_exp_src}` -/\ndef intentExpired (ct maxTtl : Nat) : Bool := {x_exp}\n");
    b += &format!("/-- exchange_intent_credential_update: instant of the session id `uuid_from_duration(_, self.sid)` -/\ndef exchangeSessTime (ct ttl : Nat) : Nat := {x_sess_time}\n");
    b += &format!("/-- exchange_intent_credential_update: `session_ttl` of the written state -/\ndef exchangeSessTtl (ct ttl : Nat) : Nat := {x_sess_ttl}\n");
    b += &format!("/-- init_credential_update: instant of the session id -/\ndef directSessTime (ct ttl : Nat) : Nat := {d_sess_time}\n");
    b += &format!("/-- create_credupdate_session: the token's `max_ttl` -/\ndef tokenMaxTtl (ct ttl : Nat) : Nat := {tok_max}\n");
    b += &format!("/-- expire_credential_update_sessions: instant of `split_off_lt(uuid_from_duration(_, self.sid))` -/\ndef expireSplitTime (ct : Nat) : Nat := {split}\n");
    b += &format!("/-- credential_update_commit_common: `{}` -/\ndef tokenExpired (ct maxTtl : Nat) : Bool := {cc_exp}\n", toks(&cc_c));
    b += &format!("/-- get_current_session: `{}` -/\ndef tokenExpiredRead (ct maxTtl : Nat) : Bool := {g_exp}\n", toks(&g_c));
    b += &x_tbl;
    b += &format!("/-- exchange_intent_credential_update: the state written by `Modify::Present` -/\ndef exchangeWrites : Tag := {x_tag}\n");
    b += &cc;
    b += &r_tbl;
    b += &format!("/-- revoke_credential_update_intent: the state written by `Modify::Present` -/\ndef revokeWrites : Tag := {r_tag}\n");
    b += "end Kanidm.Gen.Intent\n";

    let path = format!("{out}/IntentOps.lean");
    let text = format!(
        "-- GENERATED by vtranslate from {SRC}, {VALUE}. Do not edit: rewritten on every check run.\nimport KanidmModel.IntentTypes\nset_option linter.unusedVariables false\n{b}"
    );
    if std::fs::read_to_string(&path).map(|old| old == text).unwrap_or(false) {
        return Ok("IntentOps: unchanged (4 arm tables, 4 written states, 6 comparisons)".to_string());
    }
    std::fs::write(&path, text).map_err(|e| format!("{path}: {e}"))?;
    Ok("IntentOps: 4 arm tables, 4 written states, 6 comparisons".to_string())
}
