//! syn helpers: locate functions, walk expressions, render simple expressions as Lean.
use quote::ToTokens;
use std::collections::BTreeMap;
use syn::visit::Visit;

pub fn parse_file(repo: &str, rel: &str) -> Result<syn::File, String> {
    let p = format!("{repo}/{rel}");
    let src = std::fs::read_to_string(&p).map_err(|e| format!("{p}: {e}"))?;
    syn::parse_file(&src).map_err(|e| format!("{p}: parse error: {e}"))
}

/// A function body found by name; `qual` = "Type::name" narrows to an impl of `Type`
/// (trait impls included: "Trait for Type::name" is matched by Type only).
pub struct FoundFn {
    pub sig: syn::Signature,
    pub block: syn::Block,
}

struct FnFinder<'a> {
    ty: Option<&'a str>,
    tr: Option<&'a str>,
    name: &'a str,
    cur_ty: Vec<String>,
    cur_tr: Vec<Option<String>>,
    found: Vec<FoundFn>,
}

fn type_name(t: &syn::Type) -> String {
    match t {
        syn::Type::Path(p) => p.path.segments.last().map(|s| s.ident.to_string()).unwrap_or_default(),
        syn::Type::Reference(r) => type_name(&r.elem),
        _ => t.to_token_stream().to_string(),
    }
}

impl<'a, 'ast> Visit<'ast> for FnFinder<'a> {
    fn visit_item_impl(&mut self, i: &'ast syn::ItemImpl) {
        self.cur_ty.push(type_name(&i.self_ty));
        self.cur_tr.push(i.trait_.as_ref().map(|(_, p, _)| {
            p.segments.last().map(|s| s.ident.to_string()).unwrap_or_default()
        }));
        syn::visit::visit_item_impl(self, i);
        self.cur_ty.pop();
        self.cur_tr.pop();
    }
    fn visit_impl_item_fn(&mut self, f: &'ast syn::ImplItemFn) {
        let ty_ok = match self.ty {
            Some(t) => self.cur_ty.last().map(|c| c == t).unwrap_or(false),
            None => true,
        };
        let tr_ok = match self.tr {
            Some(t) => self.cur_tr.last().and_then(|c| c.as_ref()).map(|c| c == t).unwrap_or(false),
            None => true,
        };
        if ty_ok && tr_ok && f.sig.ident == self.name {
            self.found.push(FoundFn { sig: f.sig.clone(), block: f.block.clone() });
        }
        syn::visit::visit_impl_item_fn(self, f);
    }
    /// Default methods of `trait T { fn name(..) { .. } }`, addressed as `T::name` only.
    fn visit_item_trait(&mut self, t: &'ast syn::ItemTrait) {
        if self.tr.is_none() && self.ty.map(|ty| t.ident == ty).unwrap_or(false) {
            for it in &t.items {
                if let syn::TraitItem::Fn(f) = it {
                    if f.sig.ident == self.name {
                        if let Some(b) = &f.default {
                            self.found.push(FoundFn { sig: f.sig.clone(), block: b.clone() });
                        }
                    }
                }
            }
        }
        syn::visit::visit_item_trait(self, t);
    }
    fn visit_item_fn(&mut self, f: &'ast syn::ItemFn) {
        if self.ty.is_none() && self.tr.is_none() && f.sig.ident == self.name {
            self.found.push(FoundFn { sig: f.sig.clone(), block: (*f.block).clone() });
        }
        syn::visit::visit_item_fn(self, f);
    }
}

/// `spec` is `name`, `Type::name` or `Trait@Type::name`.
pub fn find_fn(file: &syn::File, spec: &str) -> Result<FoundFn, String> {
    let (qual, name) = match spec.rsplit_once("::") {
        Some((q, n)) => (Some(q), n),
        None => (None, spec),
    };
    let (tr, ty) = match qual {
        Some(q) => match q.split_once('@') {
            Some((tr, ty)) => (Some(tr), Some(ty)),
            None => (None, Some(q)),
        },
        None => (None, None),
    };
    let mut f = FnFinder { ty, tr, name, cur_ty: vec![], cur_tr: vec![], found: vec![] };
    f.visit_file(file);
    match f.found.len() {
        0 => Err(format!("function `{spec}` not found")),
        1 => Ok(f.found.remove(0)),
        n => Err(format!("function `{spec}` is ambiguous ({n} matches)")),
    }
}

/// All `if` conditions of a block in source (pre-)order, `else if` chains included.
pub fn if_conditions(block: &syn::Block) -> Vec<syn::Expr> {
    struct V(Vec<syn::Expr>);
    impl<'ast> Visit<'ast> for V {
        fn visit_expr_if(&mut self, i: &'ast syn::ExprIf) {
            self.0.push((*i.cond).clone());
            syn::visit::visit_expr_if(self, i);
        }
    }
    let mut v = V(vec![]);
    v.visit_block(block);
    v.0
}

/// Find a top-level or nested `const NAME: T = EXPR;`
pub fn find_const(file: &syn::File, name: &str) -> Option<syn::Expr> {
    struct V<'a>(&'a str, Option<syn::Expr>);
    impl<'a, 'ast> Visit<'ast> for V<'a> {
        fn visit_item_const(&mut self, c: &'ast syn::ItemConst) {
            if c.ident == self.0 && self.1.is_none() {
                self.1 = Some((*c.expr).clone());
            }
        }
        fn visit_impl_item_const(&mut self, c: &'ast syn::ImplItemConst) {
            if c.ident == self.0 && self.1.is_none() {
                self.1 = Some(c.expr.clone());
            }
        }
    }
    let mut v = V(name, None);
    v.visit_file(file);
    v.1
}

pub fn path_string(e: &syn::Expr) -> Option<String> {
    match e {
        syn::Expr::Path(p) => Some(
            p.path.segments.iter().map(|s| s.ident.to_string()).collect::<Vec<_>>().join("::"),
        ),
        syn::Expr::Field(f) => {
            let base = path_string(&f.base)?;
            let m = match &f.member {
                syn::Member::Named(i) => i.to_string(),
                syn::Member::Unnamed(i) => i.index.to_string(),
            };
            Some(format!("{base}.{m}"))
        }
        syn::Expr::Paren(p) => path_string(&p.expr),
        syn::Expr::Reference(r) => path_string(&r.expr),
        syn::Expr::Unary(u) if matches!(u.op, syn::UnOp::Deref(_)) => path_string(&u.expr),
        syn::Expr::MethodCall(m) if m.args.is_empty() => {
            // treat `x.as_secs()` / `x.clone()` style projections as paths: base.method()
            let base = path_string(&m.receiver)?;
            Some(format!("{base}.{}()", m.method))
        }
        _ => None,
    }
}

/// Evaluate a constant integer expression (literals, + - * / << |, other named consts,
/// `Duration::from_secs(n)` ↦ n seconds, `as` casts).
pub fn eval_int(e: &syn::Expr, env: &dyn Fn(&str) -> Option<i128>) -> Result<i128, String> {
    use syn::{BinOp, Expr};
    match e {
        Expr::Lit(l) => match &l.lit {
            syn::Lit::Int(i) => i.base10_parse::<i128>().map_err(|e| e.to_string()),
            other => Err(format!("non-integer literal {}", other.to_token_stream())),
        },
        Expr::Paren(p) => eval_int(&p.expr, env),
        Expr::Group(g) => eval_int(&g.expr, env),
        Expr::Cast(c) => eval_int(&c.expr, env),
        Expr::Unary(u) => match u.op {
            syn::UnOp::Neg(_) => Ok(-eval_int(&u.expr, env)?),
            _ => Err("unsupported unary".into()),
        },
        Expr::Binary(b) => {
            let l = eval_int(&b.left, env)?;
            let r = eval_int(&b.right, env)?;
            Ok(match b.op {
                BinOp::Add(_) => l + r,
                BinOp::Sub(_) => l - r,
                BinOp::Mul(_) => l * r,
                BinOp::Div(_) => l / r,
                BinOp::Shl(_) => l << r,
                BinOp::Shr(_) => l >> r,
                BinOp::BitOr(_) => l | r,
                BinOp::BitAnd(_) => l & r,
                _ => return Err(format!("unsupported operator in {}", e.to_token_stream())),
            })
        }
        Expr::Path(_) => {
            let p = path_string(e).unwrap_or_default();
            let last = p.rsplit("::").next().unwrap_or("").to_string();
            env(&last).ok_or_else(|| format!("unknown constant {p}"))
        }
        Expr::Call(c) => {
            let f = path_string(&c.func).unwrap_or_default();
            if (f.ends_with("Duration::from_secs") || f.ends_with("Duration::new")) && !c.args.is_empty() {
                eval_int(&c.args[0], env)
            } else if f.ends_with("Duration::from_millis") && c.args.len() == 1 {
                Err("from_millis not representable in seconds".into())
            } else {
                Err(format!("unsupported call {f}"))
            }
        }
        Expr::MethodCall(m) if m.method == "as_secs" || m.method == "get" => eval_int(&m.receiver, env),
        _ => Err(format!("unsupported constant expression {}", e.to_token_stream())),
    }
}

/// Render a boolean/arith expression as Lean (Bool-valued for comparisons), mapping leaf
/// paths through `vars`. Fails on anything it does not recognise: never guesses.
pub fn lean_expr(e: &syn::Expr, vars: &BTreeMap<String, String>) -> Result<String, String> {
    use syn::{BinOp, Expr};
    if let Some(p) = path_string(e) {
        if let Some(v) = vars.get(&p) {
            return Ok(v.clone());
        }
    }
    match e {
        Expr::Paren(p) => Ok(format!("({})", lean_expr(&p.expr, vars)?)),
        Expr::Group(g) => lean_expr(&g.expr, vars),
        Expr::Lit(l) => match &l.lit {
            syn::Lit::Int(i) => Ok(i.base10_digits().to_string()),
            syn::Lit::Bool(b) => Ok(if b.value { "true".into() } else { "false".into() }),
            o => Err(format!("unsupported literal {}", o.to_token_stream())),
        },
        Expr::Unary(u) => match u.op {
            syn::UnOp::Not(_) => Ok(format!("(!{})", lean_expr(&u.expr, vars)?)),
            syn::UnOp::Deref(_) => lean_expr(&u.expr, vars),
            _ => Err("unsupported unary".into()),
        },
        Expr::Reference(r) => lean_expr(&r.expr, vars),
        Expr::Binary(b) => {
            let l = lean_expr(&b.left, vars)?;
            let r = lean_expr(&b.right, vars)?;
            Ok(match b.op {
                BinOp::Lt(_) => format!("decide ({l} < {r})"),
                BinOp::Le(_) => format!("decide ({l} ≤ {r})"),
                BinOp::Gt(_) => format!("decide ({l} > {r})"),
                BinOp::Ge(_) => format!("decide ({l} ≥ {r})"),
                BinOp::Eq(_) => format!("decide ({l} = {r})"),
                BinOp::Ne(_) => format!("decide ({l} ≠ {r})"),
                BinOp::And(_) => format!("({l} && {r})"),
                BinOp::Or(_) => format!("({l} || {r})"),
                BinOp::Add(_) => format!("({l} + {r})"),
                BinOp::Sub(_) => format!("({l} - {r})"),
                BinOp::Mul(_) => format!("({l} * {r})"),
                BinOp::BitAnd(_) => format!("({l} &&& {r})"),
                BinOp::BitOr(_) => format!("({l} ||| {r})"),
                _ => return Err(format!("unsupported operator in `{}`", e.to_token_stream())),
            })
        }
        _ => Err(format!(
            "unrecognised expression `{}` (known leaves: {:?})",
            e.to_token_stream(),
            vars.keys().collect::<Vec<_>>()
        )),
    }
}

/// FNV-1a over the whitespace-normalised token stream of a function (signature + body):
/// formatting and comments do not change it, any token does.
pub fn fingerprint(f: &FoundFn) -> String {
    let s = format!("{} {}", f.sig.to_token_stream(), f.block.to_token_stream());
    let mut h: u64 = 0xcbf29ce484222325;
    for b in s.bytes() {
        h ^= b as u64;
        h = h.wrapping_mul(0x100000001b3);
    }
    format!("{h:016x}")
}

pub fn write_generated(out_dir: &str, module: &str, header_src: &str, body: &str) -> Result<(), String> {
    let path = format!("{out_dir}/{module}.lean");
    let text = format!(
        "-- GENERATED by vtranslate from {header_src}. Do not edit: rewritten on every check run.\nset_option linter.unusedVariables false\n{body}"
    );
    // only touch the file when the content changes, so lake does not rebuild needlessly
    if std::fs::read_to_string(&path).map(|old| old == text).unwrap_or(false) {
        return Ok(());
    }
    std::fs::write(&path, text).map_err(|e| format!("{path}: {e}"))
}
