#!/usr/bin/env python3
"""
C30 independent oracle: password-hash formats implemented WITHOUT any kanidm / RustCrypto code.

  c30_oracle.py gen   --seed N --tier quick|thorough --budget B --out FILE
      writes one JSON document {"vectors":[...]} : hashes produced here (OpenSSL through hashlib,
      libc crypt(3) through the crypt module, RFC 1320 MD4 below, `openssl kdf ARGON2ID`) in the
      import syntax of the producing system, each with candidate cleartexts and THIS side's verdict
      (accept / reject), obtained by re-parsing the import string and re-verifying the candidate.
  c30_oracle.py check --in FILE --out FILE
      verifies hashes produced by kanidm (PBKDF2-HMAC-SHA256, Argon2id given as parameters + salt +
      key) against candidate cleartexts and writes this side's verdicts.

Everything random derives from --seed (random.Random), so a vector file is reproducible.
"""
import sys, os, json, base64, hashlib, hmac, struct, random, subprocess, unicodedata, argparse, warnings

warnings.simplefilter("ignore")
import crypt  # libc crypt(3)

H64 = "./0123456789ABCDEFGHIJKLMNOPQRSTUVWXYZabcdefghijklmnopqrstuvwxyz"


# ---------------------------------------------------------------------------- MD4 (RFC 1320)
def md4(data: bytes) -> bytes:
    def rol(x, n):
        x &= 0xFFFFFFFF
        return ((x << n) | (x >> (32 - n))) & 0xFFFFFFFF

    a, b, c, d = 0x67452301, 0xEFCDAB89, 0x98BADCFE, 0x10325476
    ml = len(data)
    data = data + b"\x80" + b"\x00" * ((55 - ml) % 64) + struct.pack("<Q", (ml * 8) & 0xFFFFFFFFFFFFFFFF)
    for off in range(0, len(data), 64):
        x = struct.unpack("<16I", data[off:off + 64])
        aa, bb, cc, dd = a, b, c, d
        F = lambda x_, y, z: (x_ & y) | (~x_ & z)
        G = lambda x_, y, z: (x_ & y) | (x_ & z) | (y & z)
        Hh = lambda x_, y, z: x_ ^ y ^ z
        for i in range(16):
            k = i
            s = (3, 7, 11, 19)[i % 4]
            t = rol(a + F(b, c, d) + x[k], s)
            a, b, c, d = d, t, b, c
        for i in range(16):
            k = (i % 4) * 4 + i // 4
            s = (3, 5, 9, 13)[i % 4]
            t = rol(a + G(b, c, d) + x[k] + 0x5A827999, s)
            a, b, c, d = d, t, b, c
        order = (0, 8, 4, 12, 2, 10, 6, 14, 1, 9, 5, 13, 3, 11, 7, 15)
        for i in range(16):
            k = order[i]
            s = (3, 9, 11, 15)[i % 4]
            t = rol(a + Hh(b, c, d) + x[k] + 0x6ED9EBA1, s)
            a, b, c, d = d, t, b, c
        a = (a + aa) & 0xFFFFFFFF
        b = (b + bb) & 0xFFFFFFFF
        c = (c + cc) & 0xFFFFFFFF
        d = (d + dd) & 0xFFFFFFFF
    return struct.pack("<4I", a, b, c, d)


assert md4(b"").hex() == "31d6cfe0d16ae931b73c59d7e0c089c0"
assert md4(b"abc").hex() == "a448017aaf21d8525fc10ae87aa6729d"
assert md4(b"12345678901234567890123456789012345678901234567890123456789012345678901234567890").hex() == \
    "e33b4ddc9c38f2199c3e7b164fcc0536"


def nt_hash(ct: bytes) -> bytes:
    return md4(ct.decode("utf-8").encode("utf-16-le"))


# ---------------------------------------------------------------------------- argon2id (OpenSSL)
def argon2id(ct: bytes, salt: bytes, m: int, t: int, p: int, keylen: int, version: int = 19) -> bytes:
    cmd = ["openssl", "kdf", "-keylen", str(keylen), "-binary",
           "-kdfopt", "hexpass:" + ct.hex(), "-kdfopt", "hexsalt:" + salt.hex(),
           "-kdfopt", f"iter:{t}", "-kdfopt", f"memcost:{m}", "-kdfopt", f"lanes:{p}",
           "-kdfopt", f"version:{version}", "ARGON2ID"]
    r = subprocess.run(cmd, stdout=subprocess.PIPE, stderr=subprocess.PIPE)
    if r.returncode != 0 or len(r.stdout) != keylen:
        raise RuntimeError("openssl argon2id failed: " + r.stderr.decode(errors="replace")[:300])
    return r.stdout


# ---------------------------------------------------------------------------- base64 dialects
def b64_nopad(b: bytes) -> str:
    return base64.b64encode(b).decode().rstrip("=")


def ab64(b: bytes) -> str:  # passlib "adapted base64": '.' for '+', no padding
    return b64_nopad(b).replace("+", ".")


def ab64_dec(s: str) -> bytes:
    s = s.replace(".", "+")
    return base64.b64decode(s + "=" * (-len(s) % 4), validate=True)


def b64_dec_strict(s: str) -> bytes:
    return base64.b64decode(s, validate=True)


# ---------------------------------------------------------------------------- verification, from the import string
def verify(imp: str, ct: bytes):
    """This side's verdict for cleartext `ct` against the import string `imp` (None = not a hash
    this side understands)."""
    eq = hmac.compare_digest
    if imp.startswith("pbkdf2_sha256$"):
        _, it, salt, h = imp.split("$")
        h = b64_dec_strict(h)
        return eq(hashlib.pbkdf2_hmac("sha256", ct, salt.encode(), int(it), len(h)), h)
    if imp.startswith("ipaNTHash: "):
        v = imp[len("ipaNTHash: "):]
        return eq(nt_hash(ct), base64.urlsafe_b64decode(v + "=" * (-len(v) % 4)))
    if imp.startswith("sambaNTPassword: "):
        return eq(nt_hash(ct), bytes.fromhex(imp[len("sambaNTPassword: "):]))
    if imp.startswith("{"):
        tag, val = imp[1:].split("}", 1)
        tag = tag.lower()
        if tag in ("pbkdf2", "pbkdf2-sha1", "pbkdf2-sha256", "pbkdf2-sha512"):
            alg = {"pbkdf2": "sha1", "pbkdf2-sha1": "sha1", "pbkdf2-sha256": "sha256", "pbkdf2-sha512": "sha512"}[tag]
            it, salt, h = val.split("$")
            salt, h = ab64_dec(salt), ab64_dec(h)
            return eq(hashlib.pbkdf2_hmac(alg, ct, salt, int(it), len(h)), h)
        if tag in ("sha", "ssha", "sha256", "ssha256", "sha512", "ssha512"):
            alg, n = {"sha": ("sha1", 20), "ssha": ("sha1", 20), "sha256": ("sha256", 32), "ssha256": ("sha256", 32),
                      "sha512": ("sha512", 64), "ssha512": ("sha512", 64)}[tag]
            raw = b64_dec_strict(val)
            dg, salt = raw[:n], raw[n:]
            if not tag.startswith("ss") and salt:
                return None
            return eq(hashlib.new(alg, ct + salt).digest(), dg)
        if tag == "crypt":
            if b"\x00" in ct:
                return None  # crypt(3) takes a C string
            out = crypt.crypt(ct.decode("utf-8", "surrogateescape"), val)
            return out is not None and eq(out.encode(), val.encode())
        if tag == "argon2":
            f = val.split("$")
            assert f[0] == "" and f[1] == "argon2id", val
            ver = 19
            i = 2
            if f[i].startswith("v="):
                ver = int(f[i][2:]); i += 1
            prm = dict(kv.split("=") for kv in f[i].split(","))
            salt = base64.b64decode(f[i + 1] + "=" * (-len(f[i + 1]) % 4), validate=True)
            key = base64.b64decode(f[i + 2] + "=" * (-len(f[i + 2]) % 4), validate=True)
            return eq(argon2id(ct, salt, int(prm["m"]), int(prm["t"]), int(prm["p"]), len(key), ver), key)
    return None


# ---------------------------------------------------------------------------- generators
LETTERS = "abcdefghijklmnopqrstuvwxyzABCDEFGHIJKLMNOPQRSTUVWXYZ0123456789"
PUNCT = " !\"#$%&'()*+,-./:;<=>?@[\\]^_`{|}~"
NONASCII = ["é", "ß", "ñ", "Ω", "я", "中", "日本", "한", "🔑", "😀", "𝒳", "é", "å", "İ", "ǆ", " ", "​", "ﬁ", "Å", "Å"]
EDGE_LENS = [0, 1, 2, 7, 8, 15, 16, 17, 31, 32, 33, 55, 56, 57, 63, 64, 65, 72, 73, 111, 112, 113, 119, 120, 127, 128, 129,
             255, 256, 257, 500, 511, 512]


def rand_text(r: random.Random, nbytes_target: int, flavour: str) -> str:
    out, n = [], 0
    while n < nbytes_target:
        if flavour == "ascii":
            ch = r.choice(LETTERS + PUNCT) if r.random() < 0.9 else r.choice(LETTERS)
        elif flavour == "nul":
            ch = "\x00" if r.random() < 0.15 else r.choice(LETTERS)
        else:
            ch = r.choice(NONASCII) if r.random() < 0.45 else r.choice(LETTERS + PUNCT)
        b = len(ch.encode())
        if n + b > nbytes_target:
            ch = r.choice(LETTERS)
            b = 1
        out.append(ch)
        n += b
    return "".join(out)


def cleartext(r: random.Random, allow_nul: bool) -> str:
    k = r.random()
    if k < 0.30:
        return rand_text(r, r.randint(1, 40), "ascii")
    if k < 0.55:
        return rand_text(r, r.randint(1, 60), "uni")
    if k < 0.90:
        return rand_text(r, min(r.choice(EDGE_LENS), 512 if allow_nul else 511), r.choice(["ascii", "uni"]))
    if k < 0.95 and allow_nul:
        return rand_text(r, r.randint(1, 24), "nul")
    return r.choice(["password", "", " ", "pässwörd", "パスワード", "correct horse battery staple", "\t", "🔑"])


def near_misses(r: random.Random, ct: str, allow_nul: bool):
    c = []
    c.append(("right", ct))
    c.append(("append-space", ct + " "))
    if ct:
        c.append(("drop-last", ct[:-1]))
        c.append(("drop-first", ct[1:]))
        sw = ct[0].swapcase() + ct[1:]
        if sw != ct:
            c.append(("swapcase", sw))
        i = r.randrange(len(ct))
        repl = chr(ord(ct[i]) + 1) if ord(ct[i]) not in (0xD7FF, 0x10FFFF) else "x"
        c.append(("bump-char", ct[:i] + repl + ct[i + 1:]))
        c.append(("doubled", ct + ct))
    else:
        c.append(("one-space", " "))
    for form in ("NFC", "NFD", "NFKC"):
        v = unicodedata.normalize(form, ct)
        if v != ct:
            c.append(("normalise-" + form, v))
    if allow_nul:
        c.append(("append-nul", ct + "\x00"))
    if len(ct.encode()) > 16:
        b = ct.encode()[:16].decode("utf-8", "ignore")
        c.append(("first-16-bytes", b))
    c.append(("unrelated", rand_text(r, r.randint(1, 20), "ascii")))
    # dedupe on text, keep first label
    seen, out = set(), []
    for why, t in c:
        if t not in seen and (allow_nul or "\x00" not in t):
            seen.add(t)
            out.append((why, t))
    return out


def case_variant(r: random.Random, tag: str) -> str:
    k = r.random()
    if k < 0.5:
        return tag.upper()
    if k < 0.8:
        return tag.lower()
    return "".join(ch.upper() if r.random() < 0.5 else ch.lower() for ch in tag)


def h64_salt(r, lo, hi):
    return "".join(r.choice(H64) for _ in range(r.randint(lo, hi)))


def openssl_passwd(ident: str, salt: str, ct: str):
    """Third implementation (OpenSSL's own crypt code) for default-round crypt hashes; None if n/a."""
    if any(ch in ct for ch in "\r\n\x00") or salt == "" or ct == "" or len(ct.encode()) > 200:  # openssl passwd truncates at 256
        return None
    p = subprocess.run(["openssl", "passwd", "-" + ident, "-salt", salt, "-stdin"], input=(ct + "\n").encode(),
                       stdout=subprocess.PIPE, stderr=subprocess.PIPE)
    out = p.stdout.decode().strip()
    # `openssl passwd` prints <NULL> for inputs it refuses (e.g. an empty password line)
    return out if p.returncode == 0 and out.startswith("$") else None


def gen_one(r: random.Random, fmt: str, tier: str, ct: str):
    """Return (import_string, meta) for cleartext ct in format fmt, produced independently."""
    b = ct.encode()
    quick = tier != "thorough"
    if fmt == "django":
        it = r.choice([1, 2, 3, 10, 100, 1000]) if quick or r.random() < 0.9 else r.choice([20000, 36000, 120000])
        salt = "".join(r.choice(LETTERS) for _ in range(r.choice([1, 8, 12, 22])))
        h = hashlib.pbkdf2_hmac("sha256", b, salt.encode(), it, 32)
        return f"pbkdf2_sha256${it}${salt}${base64.b64encode(h).decode()}", {"cost": it, "salt": salt.encode().hex(), "hash": h.hex(), "kdf": "PBKDF2"}
    if fmt in ("pbkdf2", "pbkdf2-sha1", "pbkdf2-sha256", "pbkdf2-sha512"):
        alg, dk, kdf = {"pbkdf2": ("sha1", 20, "PBKDF2_SHA1"), "pbkdf2-sha1": ("sha1", 20, "PBKDF2_SHA1"),
                        "pbkdf2-sha256": ("sha256", 32, "PBKDF2"), "pbkdf2-sha512": ("sha512", 64, "PBKDF2_SHA512")}[fmt]
        it = r.choice([1, 2, 7, 100, 1000, 4096]) if quick or r.random() < 0.9 else r.choice([10000, 30000])
        salt = r.randbytes(r.choice([1, 2, 3, 8, 15, 16, 16, 16, 17, 32]))
        h = hashlib.pbkdf2_hmac(alg, b, salt, it, dk)
        enc = ab64 if r.random() < 0.8 else b64_nopad
        return "{" + case_variant(r, fmt) + "}" + f"{it}${enc(salt)}${enc(h)}", {"cost": it, "salt": salt.hex(), "hash": h.hex(), "kdf": kdf}
    if fmt in ("sha", "ssha", "sha256", "ssha256", "sha512", "ssha512"):
        alg = {"sha": "sha1", "ssha": "sha1", "sha256": "sha256", "ssha256": "sha256", "sha512": "sha512", "ssha512": "sha512"}[fmt]
        salt = r.randbytes(r.choice([1, 4, 8, 8, 16, 20, 33])) if fmt.startswith("ss") else b""
        dg = hashlib.new(alg, b + salt).digest()
        return "{" + case_variant(r, fmt) + "}" + base64.b64encode(dg + salt).decode(), {"salt": salt.hex(), "hash": dg.hex(), "kdf": fmt.upper().replace("SHA", "SHA1") if fmt in ("sha", "ssha") else fmt.upper()}
    if fmt == "ipanthash":
        h = nt_hash(b)
        k = r.random()
        v = base64.urlsafe_b64encode(h).decode()
        if k < 0.6:
            v = v.rstrip("=")
        return "ipaNTHash: " + v, {"hash": h.hex(), "kdf": "NT_MD4"}
    if fmt == "sambant":
        h = nt_hash(b).hex()
        return "sambaNTPassword: " + (h.upper() if r.random() < 0.7 else h), {"hash": h.lower(), "kdf": "NT_MD4"}
    if fmt == "crypt-md5":
        salt = h64_salt(r, 0 if r.random() < 0.05 else 1, 8)
        out = crypt.crypt(ct, "$1$" + salt + "$")
        assert out and out.startswith("$1$" + salt + "$"), out
        x = openssl_passwd("1", salt, ct)
        assert x is None or x == out, ("libc crypt and openssl passwd disagree", out, x)
        return "{" + case_variant(r, "crypt") + "}" + out, {"salt": salt, "kdf": "CRYPT_MD5"}
    if fmt in ("crypt-sha256", "crypt-sha512"):
        ident = "5" if fmt == "crypt-sha256" else "6"
        salt = h64_salt(r, 0 if r.random() < 0.05 else 1, 16)
        k = r.random()
        if k < 0.35:
            rounds, spec = 5000, ""
        elif k < 0.45:
            rounds, spec = 5000, "rounds=5000$"
        else:
            rounds = r.choice([1000, 1001, 1234, 2000, 4999, 5001]) if quick or r.random() < 0.9 else r.choice([20000, 100000])
            spec = f"rounds={rounds}$"
        out = crypt.crypt(ct, f"${ident}${spec}{salt}$")
        assert out and out.startswith(f"${ident}${spec}{salt}$"), out
        if spec == "":
            x = openssl_passwd(ident, salt, ct)
            assert x is None or x == out, ("libc crypt and openssl passwd disagree", out, x)
        return "{" + case_variant(r, "crypt") + "}" + out, {"salt": salt, "rounds": rounds, "kdf": "CRYPT_SHA256" if ident == "5" else "CRYPT_SHA512"}
    if fmt == "argon2":
        p = r.choice([1, 1, 1, 2, 4])
        m = r.choice([8 * p, 8 * p + 1, 16 * p, 64, 100, 256, 1024]) if quick or r.random() < 0.7 else r.choice([4096, 19456, 65536])
        m = max(m, 8 * p)
        t = r.choice([1, 2, 3])
        salt = r.randbytes(r.choice([8, 9, 16, 16, 16, 24, 32]))
        keylen = r.choice([16, 24, 32, 32, 32, 32, 64])
        ver = 19 if r.random() < 0.85 else 16
        key = argon2id(b, salt, m, t, p, keylen, ver)
        vs = f"v={ver}$" if (ver != 19 or r.random() < 0.9) else ""
        phc = f"$argon2id${vs}m={m},t={t},p={p}${b64_nopad(salt)}${b64_nopad(key)}"
        return "{" + case_variant(r, "argon2") + "}" + phc, {"m": m, "t": t, "p": p, "v": ver, "salt": salt.hex(), "hash": key.hex(), "kdf": "ARGON2ID"}
    raise ValueError(fmt)


FORMATS = ["django", "pbkdf2", "pbkdf2-sha1", "pbkdf2-sha256", "pbkdf2-sha512", "sha", "ssha", "sha256", "ssha256",
           "sha512", "ssha512", "ipanthash", "sambant", "crypt-md5", "crypt-sha256", "crypt-sha512", "argon2"]
# relative weights (argon2 spawns one openssl process per candidate)
WEIGHT = {"argon2": 0.25}


def fixed_vectors():
    """Published vectors (not produced here): kanidm's own unit-test strings are NOT used; these are
    from the format owners' documentation / test suites."""
    return [
        # Drepper SHA-crypt.txt
        ("{crypt}$5$saltstring$5B8vYYiY.CVt1RlTTf8KbXBH3hsxY/GNooZaBBGWEc5", "Hello world!", "crypt-sha256"),
        ("{crypt}$5$rounds=10000$saltstringsaltst$3xv.VbSHBb41AL9AvLeujZkZRBAwqFMz2.opqey6IcA", "Hello world!", "crypt-sha256"),
        ("{crypt}$6$saltstring$svn8UoSVapNtMuq1ukKS4tPQd8iKwSMHWjl/O817G3uBnIFNjnQJuesI68u4OTLiBFdcbYEdFCoEOfaS35inz1", "Hello world!", "crypt-sha512"),
        ("{crypt}$6$rounds=1400$anotherlongsalts$POfYwTEok97VWcjxIiSOjiykti.o/pQs.wPvMxQ6Fm7I6IoYN3CmLs66x9t0oSwbtEW7o7UmJEiDwGqd8p4ur1",
         "a very much longer text to encrypt.  This one even stretches over morethan one line.", "crypt-sha512"),
        # passlib ldap_pbkdf2 / django docs
        ("{PBKDF2}1212$OB.dtnSEXZK8U5cgxU/GYQ$y5LKPOplRmok7CZp/aqVDVg8zGI", "password", "pbkdf2"),
        ("{PBKDF2-SHA256}1212$4vjV83LKPjQzk31VI4E0Vw$hsYF68OiOUPdDZ1Fg.fJPeq1h/gXXY7acBp9/6c.tmQ", "password", "pbkdf2-sha256"),
        ("{PBKDF2-SHA512}1212$RHY0Fr3IDMSVO/RSZyb5ow$eNLfBK.eVozomMr.1gYa17k9B7KIK25NOEshvhrSX.esqY3s.FvWZViXz4KoLlQI.BzY/YTNJOiKc5gBYFYGww", "password", "pbkdf2-sha512"),
        ("pbkdf2_sha256$10000$kjVJaVz6qsnJ$5yPHw3rwJGECpUf70daLGhOrQ5+AMxIJdz1c3bqK1Rs=", "not a password", "django"),
        # RFC / well known
        ("sambaNTPassword: 8846F7EAEE8FB117AD06BDD830B7586C", "password", "sambant"),
        ("{SHA}qUqP5cyxm6YcTAhz05Hph5gvu9M=", "test", "sha"),
    ]


def edge_vectors(r: random.Random):
    """Strings NO producer writes (outside the property's quantifier): recorded as observations by
    the harness, never as failures. `accept` is what this side does with them."""
    out = []
    # PBKDF2 with cost 0: hashlib refuses to compute (ValueError) -> an independent verifier never accepts
    salt = r.randbytes(16)
    h1 = hashlib.pbkdf2_hmac("sha256", b"password", salt, 1, 32)
    out.append(("pbkdf2-cost-0", "{PBKDF2-SHA256}0$" + ab64(salt) + "$" + ab64(h1), "password", False))
    out.append(("django-cost-0", "pbkdf2_sha256$0$abcdefgh$" + base64.b64encode(hashlib.pbkdf2_hmac("sha256", b"password", b"abcdefgh", 1, 32)).decode(), "password", False))
    # $6$ / $5$ with a salt longer than 16: crypt(3) truncates the salt and writes the truncated one back,
    # so the stored string (long salt) never compares equal
    for ident in ("5", "6"):
        salt20 = h64_salt(r, 20, 20)
        o = crypt.crypt("password", f"${ident}${salt20}$")
        stored = f"${ident}${salt20}$" + o.rsplit("$", 1)[1]
        v = crypt.crypt("password", stored)
        out.append((f"crypt-sha-{ident}-salt-over-16", "{crypt}" + stored, "password", v == stored))
    # $1$ with a salt longer than 8
    salt12 = h64_salt(r, 12, 12)
    o = crypt.crypt("password", f"$1${salt12}$")
    stored = f"$1${salt12}$" + o.rsplit("$", 1)[1]
    out.append(("crypt-md5-salt-over-8", "{crypt}" + stored, "password", crypt.crypt("password", stored) == stored))
    # a character outside the crypt alphabet in the hash field
    out.append(("crypt-sha256-bad-hash-char", "{crypt}$5$saltsalt$!", "password", False))
    out.append(("crypt-sha512-bad-hash-char", "{crypt}$6$saltsalt$!", "password", False))
    return out


def build(seed: int, tier: str, budget: int):
    r = random.Random((seed << 8) ^ 0xC30)
    per = (12 if tier != "thorough" else 60) * budget
    vectors = []
    vid = 0
    for imp, ct, fmt in fixed_vectors():
        cands = []
        for why, t in near_misses(r, ct, fmt.startswith(("crypt",)) is False):
            v = verify(imp, t.encode())
            cands.append({"why": why, "ct": t.encode().hex(), "accept": v})
        assert cands[0]["accept"] is True, (imp, ct)
        vectors.append({"id": vid, "fmt": fmt, "origin": "published", "import": imp, "meta": {}, "cands": cands})
        vid += 1
    for name, imp, ct, acc in edge_vectors(r):
        vectors.append({"id": vid, "fmt": name, "origin": "edge", "import": imp, "meta": {},
                        "cands": [{"why": "right", "ct": ct.encode().hex(), "accept": acc}]})
        vid += 1
    for fmt in FORMATS:
        n = max(2, int(per * WEIGHT.get(fmt, 1.0)))
        allow_nul = not fmt.startswith("crypt")
        for j in range(n):
            ct = cleartext(r, allow_nul)
            if j == 0:
                # at the guard: must still be accepted (libxcrypt: 511 is its own maximum)
                ct = rand_text(r, 512 if allow_nul else 511, "ascii")
            if j == 1 and allow_nul:
                ct = rand_text(r, r.choice([513, 600, 1024]), r.choice(["ascii", "uni"]))  # D15 territory
            if j == 1 and not allow_nul:
                # libxcrypt itself refuses phrases of 512 bytes and more (CRYPT_MAX_PASSPHRASE_SIZE), so no
                # independent crypt(3) hash of a longer cleartext exists here
                ct = rand_text(r, 300, r.choice(["ascii", "uni"]))
            imp, meta = gen_one(r, fmt, tier, ct)
            cands = []
            nm = near_misses(r, ct, allow_nul)
            if fmt == "argon2":
                nm = nm[:4]
            for why, t in nm:
                v = verify(imp, t.encode())
                cands.append({"why": why, "ct": t.encode().hex(), "accept": v})
            assert cands[0]["why"] == "right" and cands[0]["accept"] is True, (fmt, imp, ct)
            vectors.append({"id": vid, "fmt": fmt, "origin": "generated", "import": imp, "meta": meta, "cands": cands})
            vid += 1
    return vectors


def check(items):
    out = []
    for it in items:
        salt, key = bytes.fromhex(it["salt"]), bytes.fromhex(it["key"])
        res = []
        for c in it["cands"]:
            ct = bytes.fromhex(c)
            if it["kind"] == "PBKDF2":
                got = hashlib.pbkdf2_hmac("sha256", ct, salt, it["cost"], len(key))
            elif it["kind"] == "ARGON2ID":
                got = argon2id(ct, salt, it["m"], it["t"], it["p"], len(key), it["v"])
            else:
                raise ValueError(it["kind"])
            res.append(hmac.compare_digest(got, key))
        out.append({"id": it["id"], "accept": res})
    return out


def main():
    ap = argparse.ArgumentParser()
    ap.add_argument("mode", choices=["gen", "check"])
    ap.add_argument("--seed", type=int, default=1)
    ap.add_argument("--tier", default="quick")
    ap.add_argument("--budget", type=int, default=1)
    ap.add_argument("--in", dest="inp")
    ap.add_argument("--out", required=True)
    a = ap.parse_args()
    if a.mode == "gen":
        doc = {"seed": a.seed, "tier": a.tier, "vectors": build(a.seed, a.tier, a.budget),
               "implementations": {"hashlib": "OpenSSL via CPython " + sys.version.split()[0], "crypt": "libc crypt(3)",
                                   "md4": "RFC 1320, this file", "argon2id": "openssl kdf ARGON2ID"}}
    else:
        doc = {"results": check(json.load(open(a.inp))["items"])}
    tmp = a.out + ".tmp"
    json.dump(doc, open(tmp, "w"))
    os.replace(tmp, a.out)


if __name__ == "__main__":
    main()
