//! C30 — independent-oracle streams for `kanidm_lib_crypto::Password`.
//!
//! * `vectors`  : hashes produced at check time by `py/c30_oracle.py` (OpenSSL via hashlib, libc
//!                crypt(3), RFC 1320 MD4, `openssl kdf ARGON2ID`) in their import syntax, each with
//!                right / wrong / near-miss cleartexts and that side's verdict. Here: real
//!                `Password::try_from(import)` + `verify`, before and after a storage round trip
//!                (`to_dbpasswordv1` -> serde_json -> `TryFrom<DbPasswordV1>`).
//! * `generated`: hashes produced by kanidm (`new_pbkdf2`, `new_argon2id`), verdicts on candidate
//!                cleartexts re-derived by the python side from (parameters, salt, key).
//! * `inproc`   : aws-lc-rs (C) digests / PBKDF2 as a second independent implementation, larger counts.
//! The Lean model is not involved in this binary (see c30fmt for the correspondence stream).
use hcrypto::*;
use kanidm_lib_crypto::{CryptoPolicy, DbPasswordV1, Password};
use serde_json::{json, Value};
use std::num::NonZeroU32;
use std::process::Command;

const PY: &str = concat!(env!("CARGO_MANIFEST_DIR"), "/py/c30_oracle.py");
const D15: &str = "D15:cleartext-over-512-bytes";

fn classify(fmt: &str, ct: &str, expected: bool, got: &Result<bool, String>) -> String {
    match got {
        Ok(false) if expected && ct.len() > 512 => D15.to_string(),
        Ok(false) if expected => format!("right-cleartext-rejected:{fmt}"),
        Ok(true) if !expected => format!("wrong-cleartext-accepted:{fmt}"),
        Err(e) => format!("verify-{}:{fmt}", e.split(':').next().unwrap_or("error")),
        _ => "unclassified".into(),
    }
}

/// Storage round trip through the serialised DbPasswordV1.
fn roundtrip(p: &Password) -> Result<(Password, String), String> {
    let js = serde_json::to_string(&p.to_dbpasswordv1()).map_err(|e| e.to_string())?;
    let db: DbPasswordV1 = serde_json::from_str(&js).map_err(|e| e.to_string())?;
    let p2 = Password::try_from(db).map_err(|_| "TryFrom<DbPasswordV1> failed".to_string())?;
    Ok((p2, js))
}

struct Case<'a> {
    stream: &'a str,
    fmt: &'a str,
    /// import string, or serialised DbPasswordV1 for kanidm-generated hashes
    import: Option<&'a str>,
    db: Option<String>,
}

/// Judge one stored password against candidates with the independent verdicts.
fn judge(rep: &mut Report, case: &Case, p: &Password, cands: &[(String, String, Option<bool>)]) -> usize {
    let (p2, _js) = match roundtrip(p) {
        Ok(x) => x,
        Err(e) => {
            rep.fail(Failure {
                kind: "impl-vs-oracle".into(),
                class: format!("storage-roundtrip-failed:{}", case.fmt),
                input: json!({"stream": case.stream, "fmt": case.fmt, "import": case.import, "db": case.db}),
                expected: "stored password reloads".into(),
                observed: e,
            });
            return 0;
        }
    };
    if &p2 != p {
        rep.fail(Failure {
            kind: "impl-vs-oracle".into(),
            class: format!("storage-roundtrip-changes-material:{}", case.fmt),
            input: json!({"stream": case.stream, "fmt": case.fmt, "import": case.import, "db": case.db}),
            expected: canon_db(p.to_dbpasswordv1()),
            observed: canon_db(p2.to_dbpasswordv1()),
        });
    }
    let mut judged = 0;
    for (why, ct, expected) in cands {
        let Some(expected) = expected else {
            rep.count("oracle-not-applicable");
            continue;
        };
        judged += 1;
        rep.count(&format!("cand:{why}:{}", if *expected { "accept" } else { "reject" }));
        for (stage, pw) in [("import", p), ("reloaded", &p2)] {
            let got = kverify(pw, ct);
            if got != Ok(*expected) {
                let class = classify(case.fmt, ct, *expected, &got);
                if class == D15 {
                    rep.count("known:D15");
                    // keep the bounded failure list for anything that is not the recorded finding
                    if rep.histogram.get("known:D15").copied().unwrap_or(0) > 6 {
                        break;
                    }
                }
                rep.fail(Failure {
                    kind: "impl-vs-oracle".into(),
                    class,
                    input: json!({"stream": case.stream, "fmt": case.fmt, "import": case.import, "db": case.db,
                                  "ct": hex(ct.as_bytes()), "expected": expected, "why": why, "stage": stage}),
                    expected: format!("independent implementation: {}", if *expected { "accept" } else { "reject" }),
                    observed: format!("{got:?} ({stage})"),
                });
                break;
            }
        }
    }
    judged
}

fn run_py(args: &[&str]) {
    let out = Command::new("python3").arg(PY).args(args).output().expect("python3");
    if !out.status.success() {
        panic!("c30_oracle.py {:?} failed: {}", args, String::from_utf8_lossy(&out.stderr));
    }
}

fn stream_vectors(args: &Args, rep: &mut Report, tmp: &str) {
    let vf = format!("{tmp}/vectors.json");
    run_py(&["gen", "--seed", &args.seed.to_string(), "--tier", &args.tier, "--budget", &args.budget.to_string(), "--out", &vf]);
    let doc: Value = serde_json::from_str(&std::fs::read_to_string(&vf).unwrap()).unwrap();
    rep.note(format!("independent implementations: {}", doc["implementations"]));
    for v in doc["vectors"].as_array().unwrap() {
        let fmt = v["fmt"].as_str().unwrap();
        let imp = v["import"].as_str().unwrap();
        if v["origin"].as_str() == Some("edge") {
            // strings no producer writes: outside the property's quantifier, observed and noted only
            let ct = String::from_utf8(unhex(v["cands"][0]["ct"].as_str().unwrap())).unwrap();
            let indep = v["cands"][0]["accept"].as_bool();
            let ours = match ktry(imp) {
                Ok(Ok(p)) => format!("{:?}", kverify(&p, &ct)),
                Ok(Err(e)) => format!("import refused ({e:?})"),
                Err(_) => "import panicked".into(),
            };
            rep.count("edge-observations");
            rep.note(format!("edge (outside the quantifier) {fmt}: kanidm verify(right cleartext) = {ours}; independent side accepts = {indep:?}; import = {imp}"));
            continue;
        }
        let case = Case { stream: "vectors", fmt, import: Some(imp), db: None };
        rep.count(&format!("vectors:{fmt}"));
        let p = match ktry(imp) {
            Ok(Ok(p)) => p,
            other => {
                rep.case(None);
                rep.fail(Failure {
                    kind: "impl-vs-oracle".into(),
                    class: format!("import-refused:{fmt}"),
                    input: json!({"stream": "vectors", "fmt": fmt, "import": imp}),
                    expected: "a hash produced by an independent implementation can be stored".into(),
                    observed: format!("{:?}", other.map(|r| r.map(|_| ()))),
                });
                continue;
            }
        };
        // the import layer must have read the fields the producer wrote
        let meta = &v["meta"];
        if let Some(kdf) = meta["kdf"].as_str() {
            let got = canon_db(p.to_dbpasswordv1());
            let g: Vec<&str> = got.split(' ').collect();
            let mut ok = g.get(1) == Some(&kdf);
            let field = |k: &str| meta[k].as_str().map(|s| if s.is_empty() { "-".to_string() } else { s.to_string() });
            match kdf {
                "PBKDF2" | "PBKDF2_SHA1" | "PBKDF2_SHA512" => {
                    ok &= g.get(2).map(|s| s.to_string()) == meta["cost"].as_u64().map(|c| c.to_string())
                        && g.get(3).map(|s| s.to_string()) == field("salt")
                        && g.get(4).map(|s| s.to_string()) == field("hash");
                }
                "SSHA1" | "SSHA256" | "SSHA512" => {
                    ok &= g.get(2).map(|s| s.to_string()) == field("salt") && g.get(3).map(|s| s.to_string()) == field("hash");
                }
                "SHA1" | "SHA256" | "SHA512" | "NT_MD4" => ok &= g.get(2).map(|s| s.to_string()) == field("hash"),
                "ARGON2ID" => {
                    ok &= g[2..6].iter().map(|s| s.to_string()).collect::<Vec<_>>()
                        == ["m", "t", "p", "v"].iter().map(|k| meta[*k].as_u64().unwrap().to_string()).collect::<Vec<_>>()
                        && Some(g[6].to_string()) == field("salt")
                        && Some(g[7].to_string()) == field("hash");
                }
                _ => {}
            }
            if !ok {
                rep.fail(Failure {
                    kind: "impl-vs-oracle".into(),
                    class: format!("import-parsed-differently:{fmt}"),
                    input: json!({"stream": "vectors", "fmt": fmt, "import": imp}),
                    expected: meta.to_string(),
                    observed: got,
                });
            }
        }
        let cands: Vec<(String, String, Option<bool>)> = v["cands"]
            .as_array()
            .unwrap()
            .iter()
            .map(|c| {
                (
                    c["why"].as_str().unwrap().to_string(),
                    String::from_utf8(unhex(c["ct"].as_str().unwrap())).unwrap(),
                    c["accept"].as_bool(),
                )
            })
            .collect();
        let judged = judge(rep, &case, &p, &cands);
        let right_ok = cands.first().map(|c| c.2 == Some(true)).unwrap_or(false);
        rep.case(if right_ok && judged >= 4 { Some(format!("v:{imp}")) } else { None });
        if rep.evaluations % 37 == 1 {
            rep.sample(json!({"fmt": fmt, "import": imp, "candidates": judged, "parsed": canon_db(p.to_dbpasswordv1())}));
        }
    }
}

fn stream_generated(args: &Args, rep: &mut Report, tmp: &str) {
    let n = args.cases(24, 300);
    let mut items = vec![];
    let mut kept: Vec<(Password, String, String, Vec<(&'static str, String)>)> = vec![];
    for i in 0..n {
        let mut r = Rng::for_case(args.seed ^ 0x6e6, i);
        let ct = if i == 0 { rand_text(&mut r, 512, false) } else if i == 1 { rand_text(&mut r, 600, true) } else { rand_cleartext(&mut r) };
        let strong = r.chance(1, 8);
        let pol = if strong { CryptoPolicy::minimum() } else { CryptoPolicy::danger_test_minimum() };
        let argon = r.chance(1, 2);
        let p = if argon { Password::new_argon2id(&pol, &ct) } else { Password::new_pbkdf2(&pol, &ct) }.expect("hashing");
        let mut cands = near_misses(&mut r, &ct);
        if argon {
            cands.truncate(4);
        }
        let db = p.to_dbpasswordv1();
        let js = serde_json::to_string(&db).unwrap();
        let hexc: Vec<String> = cands.iter().map(|(_, t)| hex(t.as_bytes()).replace('-', "")).collect();
        let item = match db {
            DbPasswordV1::PBKDF2(c, s, h) => json!({"id": i, "kind": "PBKDF2", "cost": c, "salt": hex(&s), "key": hex(&h), "cands": hexc}),
            DbPasswordV1::ARGON2ID { m, t, p, v, s, k } => {
                let (s, k): (Vec<u8>, Vec<u8>) = (s.into(), k.into());
                json!({"id": i, "kind": "ARGON2ID", "m": m, "t": t, "p": p, "v": v, "salt": hex(&s), "key": hex(&k), "cands": hexc})
            }
            other => panic!("generated password of unexpected kind {other:?}"),
        };
        items.push(item);
        kept.push((p, js, if argon { "gen-argon2id".into() } else { "gen-pbkdf2".into() }, cands));
    }
    let inf = format!("{tmp}/gen_in.json");
    let outf = format!("{tmp}/gen_out.json");
    std::fs::write(&inf, json!({ "items": items }).to_string()).unwrap();
    run_py(&["check", "--in", &inf, "--out", &outf]);
    let res: Value = serde_json::from_str(&std::fs::read_to_string(&outf).unwrap()).unwrap();
    for (item, (p, js, fmt, cands)) in res["results"].as_array().unwrap().iter().zip(kept.iter()) {
        let acc: Vec<Option<bool>> = item["accept"].as_array().unwrap().iter().map(|b| b.as_bool()).collect();
        let cs: Vec<(String, String, Option<bool>)> =
            cands.iter().zip(acc.iter()).map(|((w, t), a)| (w.to_string(), t.clone(), *a)).collect();
        rep.count(&format!("generated:{fmt}"));
        let case = Case { stream: "generated", fmt, import: None, db: Some(js.clone()) };
        let judged = judge(rep, &case, p, &cs);
        let right_ok = cs[0].2 == Some(true);
        if !right_ok && cs[0].1.len() <= 512 {
            // the independent side does not accept the cleartext kanidm hashed
            rep.fail(Failure {
                kind: "impl-vs-oracle".into(),
                class: format!("generated-hash-not-reproducible:{fmt}"),
                input: json!({"stream": "generated", "fmt": fmt, "db": js, "ct": hex(cs[0].1.as_bytes()), "expected": false}),
                expected: "independent implementation re-derives the stored key from the original cleartext".into(),
                observed: "it does not".into(),
            });
        }
        rep.case(if right_ok && judged >= 3 { Some(format!("g:{js}")) } else { None });
    }
}

fn digest(alg: &str, data: &[u8]) -> Vec<u8> {
    use aws_lc_rs::digest as d;
    let a = match alg {
        "sha1" => &d::SHA1_FOR_LEGACY_USE_ONLY,
        "sha256" => &d::SHA256,
        _ => &d::SHA512,
    };
    d::digest(a, data).as_ref().to_vec()
}

fn pbkdf2(alg: &str, ct: &[u8], salt: &[u8], it: u32, dk: usize) -> Vec<u8> {
    use aws_lc_rs::pbkdf2 as k;
    let a = match alg {
        "sha1" => k::PBKDF2_HMAC_SHA1,
        "sha256" => k::PBKDF2_HMAC_SHA256,
        _ => k::PBKDF2_HMAC_SHA512,
    };
    let mut out = vec![0u8; dk];
    k::derive(a, NonZeroU32::new(it).unwrap(), salt, ct, &mut out);
    out
}

/// (import string, verdict function) built from aws-lc-rs primitives.
fn inproc_make(r: &mut Rng, ct: &str) -> (String, String, Box<dyn Fn(&[u8]) -> bool>) {
    let fmts = ["sha", "ssha", "sha256", "ssha256", "sha512", "ssha512", "pbkdf2", "pbkdf2-sha1", "pbkdf2-sha256", "pbkdf2-sha512", "django"];
    let fmt = r.pick(&fmts).to_string();
    let b = ct.as_bytes();
    match fmt.as_str() {
        "sha" | "ssha" | "sha256" | "ssha256" | "sha512" | "ssha512" => {
            let alg = match fmt.trim_start_matches("ss").trim_start_matches('s') {
                "ha" => "sha1",
                "ha256" => "sha256",
                _ => "sha512",
            };
            let salt = if fmt.starts_with("ss") { let n = *r.pick(&[1usize, 4, 8, 16, 33]); r.bytes(n) } else { vec![] };
            let dg = digest(alg, &[b, &salt[..]].concat());
            let imp = format!("{{{}}}{}", case_variant(r, &fmt), b64(STD, true, &[&dg[..], &salt[..]].concat()));
            (fmt, imp, Box::new(move |c: &[u8]| digest(alg, &[c, &salt[..]].concat()) == dg))
        }
        "django" => {
            let it = *r.pick(&[1u32, 2, 3, 10, 100, 600]);
            let n = *r.pick(&[1usize, 8, 12, 22]);
            let salt = rand_text(r, n, false).replace('$', "S");
            let h = pbkdf2("sha256", b, salt.as_bytes(), it, 32);
            let imp = format!("pbkdf2_sha256${it}${salt}${}", b64(STD, true, &h));
            (fmt, imp, Box::new(move |c: &[u8]| pbkdf2("sha256", c, salt.as_bytes(), it, 32) == h))
        }
        _ => {
            let (alg, dk) = match fmt.as_str() {
                "pbkdf2" | "pbkdf2-sha1" => ("sha1", 20),
                "pbkdf2-sha256" => ("sha256", 32),
                _ => ("sha512", 64),
            };
            let it = *r.pick(&[1u32, 2, 7, 100, 500]);
            let n = *r.pick(&[1usize, 2, 3, 8, 16, 16, 17, 32]);
            let salt = r.bytes(n);
            let h = pbkdf2(alg, b, &salt, it, dk);
            let imp = format!("{{{}}}{it}${}${}", case_variant(r, &fmt), ab64(&salt), ab64(&h));
            (fmt, imp, Box::new(move |c: &[u8]| pbkdf2(alg, c, &salt, it, dk) == h))
        }
    }
}

fn stream_inproc(args: &Args, rep: &mut Report) {
    let n = args.cases(1500, 25_000);
    for i in 0..n {
        let mut r = Rng::for_case(args.seed ^ 0x1b9, i);
        let ct = if i % 97 == 5 { let n = *r.pick(&[513usize, 600, 2000]); rand_text(&mut r, n, true) } else { rand_cleartext(&mut r) };
        let (fmt, imp, verdict) = inproc_make(&mut r, &ct);
        rep.count(&format!("inproc:{fmt}"));
        let p = match ktry(&imp) {
            Ok(Ok(p)) => p,
            other => {
                rep.case(None);
                rep.fail(Failure {
                    kind: "impl-vs-oracle".into(),
                    class: format!("import-refused:{fmt}"),
                    input: json!({"stream": "inproc", "fmt": fmt, "import": imp}),
                    expected: "a hash produced by an independent implementation can be stored".into(),
                    observed: format!("{:?}", other.map(|r| r.map(|_| ()))),
                });
                continue;
            }
        };
        let cands: Vec<(String, String, Option<bool>)> =
            near_misses(&mut r, &ct).into_iter().map(|(w, t)| { let v = verdict(t.as_bytes()); (w.to_string(), t, Some(v)) }).collect();
        let case = Case { stream: "inproc", fmt: &fmt, import: Some(&imp), db: None };
        let judged = judge(rep, &case, &p, &cands);
        rep.case(if judged >= 4 { Some(format!("i:{imp}")) } else { None });
    }
}

fn replay(path: &str, rep: &mut Report) {
    let v: Value = serde_json::from_str(&std::fs::read_to_string(path).unwrap()).unwrap();
    let inp = &v["input"];
    let fmt = inp["fmt"].as_str().unwrap_or("?").to_string();
    let p = if let Some(imp) = inp["import"].as_str() {
        match ktry(imp) {
            Ok(Ok(p)) => p,
            other => {
                rep.case(None);
                rep.fail(Failure {
                    kind: "impl-vs-oracle".into(),
                    class: format!("import-refused:{fmt}"),
                    input: inp.clone(),
                    expected: "a hash produced by an independent implementation can be stored".into(),
                    observed: format!("{:?}", other.map(|r| r.map(|_| ()))),
                });
                return;
            }
        }
    } else {
        let Some(dbs) = inp["db"].as_str() else {
            // not a replay of this binary's streams (e.g. a c30fmt model disagreement)
            rep.case(None);
            return;
        };
        let db: DbPasswordV1 = serde_json::from_str(dbs).unwrap();
        Password::try_from(db).expect("TryFrom<DbPasswordV1>")
    };
    let Some(cth) = inp["ct"].as_str() else {
        rep.case(None);
        return;
    };
    let ct = String::from_utf8(unhex(cth)).unwrap();
    let expected = inp["expected"].as_bool().unwrap();
    let js = inp["db"].as_str().map(|s| s.to_string());
    let case = Case { stream: "replay", fmt: &fmt, import: inp["import"].as_str(), db: js };
    judge(rep, &case, &p, &[("replay".into(), ct, Some(expected))]);
    rep.case(None);
}

fn main() {
    let args = Args::parse();
    let mut rep = Report::new(
        "pwhash-oracle",
        "hashes produced by independent implementations (python hashlib/crypt/MD4/openssl argon2id vector file; aws-lc-rs in \
         process) imported through Password::try_from, and hashes produced by kanidm re-derived independently; each judged \
         with the right, wrong and near-miss cleartexts before and after a storage round trip; non-trivial = imported, the \
         right cleartext is accepted by the independent side and >= 4 (generated: >= 3) candidates were judged; distinct = \
         distinct import string / stored hash",
    );
    // quiet the library's tracing output (no subscriber is installed) and panics caught on purpose
    install_quiet_hook();
    if let Some(path) = &args.replay {
        replay(path, &mut rep);
        rep.write(&args.out);
        println!("c30: replay, {} failures", rep.failures.len());
        return;
    }
    let tmp = format!("/tmp/C30-run-{}-{}", std::process::id(), args.seed);
    std::fs::create_dir_all(&tmp).unwrap();
    stream_vectors(&args, &mut rep, &tmp);
    stream_generated(&args, &mut rep, &tmp);
    stream_inproc(&args, &mut rep);
    let _ = std::fs::remove_dir_all(&tmp);
    rep.write(&args.out);
    println!("c30: {} cases, {} distinct non-trivial, {} failures", rep.evaluations, rep.nontrivial_keys.len(), rep.failures.len());
}
