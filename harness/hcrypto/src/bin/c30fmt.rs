//! C30 — correspondence between the real import-format layer and the Lean model (`km_c30`).
//!
//! * `parse`  : well-formed import strings of every format (random fields, lengths around every
//!              guard, tag case variants) and malformed ones (character / field / padding /
//!              alphabet / cost mutations, garbage): real `Password::try_from` (canonicalised through
//!              `to_dbpasswordv1`, error kinds kept) vs the model's `parse`.
//! * `render` : random format records rendered by the MODEL's `render*`, parsed by the REAL code; the
//!              result must be the record (ties the grammar the round-trip theorems quantify over).
//! * `sc`     : `$5$`/`$6$` strings: whenever the model's reading of the string (`shaCryptRead`) says
//!              malformed, the real `verify` must never accept.
//! * `guard`  : cleartext lengths around PW_MAX_LENGTH_CHECK: real verify of the right cleartext vs
//!              the model's generated guard.
use hcrypto::*;
use kanidm_lib_crypto::Password;
use serde_json::json;

fn sha1(data: &[u8]) -> Vec<u8> {
    aws_lc_rs::digest::digest(&aws_lc_rs::digest::SHA1_FOR_LEGACY_USE_ONLY, data).as_ref().to_vec()
}

fn len_near(r: &mut Rng, n: usize) -> usize {
    match r.below(10) {
        0 => n.saturating_sub(1),
        1 => n + 1,
        2 => 0,
        3 => n.saturating_sub(2),
        4 => n + 3,
        _ => n,
    }
}

fn cost_str(r: &mut Rng) -> String {
    match r.below(20) {
        0 => "".into(),
        1 => "+5".into(),
        2 => "007".into(),
        3 => "-1".into(),
        4 => "4294967295".into(),
        5 => "4294967296".into(),
        6 => "99999999999999999999999".into(),
        7 => " 5".into(),
        8 => "1e3".into(),
        9 => "+".into(),
        10 => "0".into(),
        11 => "５".into(),
        _ => r.range(1, 100_000).to_string(),
    }
}

fn h64s(r: &mut Rng, n: usize) -> String {
    (0..n).map(|_| *r.pick(H64) as char).collect()
}

/// A mostly well-formed import string of a random family; returns (family, string).
fn wellformed(r: &mut Rng) -> (&'static str, String) {
    match r.below(17) {
        0 => {
            let n = len_near(r, 32);
            let h = r.bytes(n);
            let sl = r.range(0, 14) as usize;
            let u = r.chance(1, 5);
            let salt = rand_text(r, sl, u).replace('$', "s");
            ("django", format!("pbkdf2_sha256${}${}${}", cost_str(r), salt, b64(STD, true, &h)))
        }
        1..=4 => {
            let (tag, n) = *r.pick(&[("pbkdf2", 19), ("pbkdf2", 20), ("pbkdf2-sha1", 19), ("pbkdf2-sha1", 20), ("pbkdf2-sha256", 32), ("pbkdf2-sha512", 32), ("pbkdf2-sha512", 64)]);
            let n = len_near(r, n);
            let h = r.bytes(n);
            let sl = r.range(0, 20) as usize;
            let s = r.bytes(sl);
            let enc = |r: &mut Rng, b: &[u8]| match r.below(6) {
                0 => b64(STD, false, b),
                1 => b64(STD, true, b),
                _ => ab64(b),
            };
            ("pbkdf2", format!("{{{}}}{}${}${}", case_variant(r, tag), cost_str(r), enc(r, &s), enc(r, &h)))
        }
        5..=8 => {
            let (tag, n, salted) = *r.pick(&[("sha", 20, false), ("ssha", 20, true), ("sha256", 32, false), ("ssha256", 32, true), ("sha512", 64, false), ("ssha512", 64, true)]);
            let sl = if salted { r.range(0, 12) as usize } else { *r.pick(&[0usize, 0, 0, 0, 1, 4]) };
            let dl = if r.chance(1, 6) { len_near(r, n) } else { n };
            let b = r.bytes(dl + sl);
            ("ds", format!("{{{}}}{}", case_variant(r, tag), b64(STD, r.chance(9, 10), &b)))
        }
        9 => {
            let n = *r.pick(&[16usize, 16, 16, 15, 17, 0, 1, 2, 32]);
            let h = r.bytes(n);
            let alpha = if r.chance(5, 6) { URL } else { STD };
            ("ipa", format!("ipaNTHash: {}", b64(alpha, r.chance(1, 2), &h)))
        }
        10 => {
            let n = *r.pick(&[16usize, 16, 16, 15, 17, 0, 1]);
            let h = r.bytes(n);
            let hx: String = h.iter().map(|b| if r.chance(1, 2) { format!("{b:02X}") } else { format!("{b:02x}") }).collect();
            ("samba", format!("sambaNTPassword: {}", if n == 0 { String::new() } else { hx }))
        }
        11 => {
            let sl = r.range(0, 9) as usize;
            ("crypt-md5", format!("{{{}}}$1${}${}", case_variant(r, "crypt"), h64s(r, sl), h64s(r, 22)))
        }
        12 => {
            let id = *r.pick(&["5", "6", "2a", "y", "7", ""]);
            let rounds = if r.chance(1, 2) { format!("rounds={}$", cost_str(r)) } else { String::new() };
            let sl = r.range(0, 18) as usize;
            let hl = if id == "5" { 43 } else { 86 };
            ("crypt-sha", format!("{{{}}}${id}${rounds}{}${}", case_variant(r, "crypt"), h64s(r, sl), h64s(r, hl)))
        }
        13 | 14 => {
            // mostly canonical PHC strings; one hostile choice at a time otherwise
            let hostile = if r.chance(55, 100) { 0 } else { r.range(1, 6) };
            let alg = if hostile == 1 { *r.pick(&["argon2i", "argon2d", "Argon2id", "", "argon2id-x", "scrypt"]) } else { "argon2id" };
            let ver = if hostile == 2 {
                r.pick(&["v=18$", "v=019$", "v=$", "v=1,9$", "v=4294967296$", "V=19$"]).to_string()
            } else {
                r.pick(&["v=19$", "v=19$", "v=19$", "v=16$", ""]).to_string()
            };
            let mut params = vec![format!("m={}", r.range(8, 70000)), format!("t={}", r.range(1, 5)), format!("p={}", r.range(1, 4))];
            if hostile == 3 {
                match r.below(9) {
                    0 => {
                        params.remove(r.below(3) as usize);
                    }
                    1 => params[0] = "m=08".into(),
                    2 => params[1] = "t=x".into(),
                    3 => params.push("m=9".into()),
                    4 => params[2] = "p".into(),
                    5 => params[0] = "M=64".into(),
                    6 => params[1] = "t=4294967296".into(),
                    7 => params[2] = "p=1=2".into(),
                    _ => params.insert(0, "m=".into()),
                }
            } else {
                match r.below(6) {
                    0 => params.push("keyid=Zm9v".into()),
                    1 => params.push("data=".into()),
                    2 => r.shuffle(&mut params),
                    _ => {}
                }
            }
            let sl = if hostile == 4 { *r.pick(&[2usize, 0, 49, 1]) } else { *r.pick(&[3usize, 8, 16, 16, 16, 24, 48]) };
            let kl = if hostile == 5 { *r.pick(&[9usize, 65, 0, 1]) } else { *r.pick(&[10usize, 16, 32, 32, 32, 64]) };
            let salt = b64(STD, false, &r.bytes(sl));
            let key = b64(STD, hostile == 6 && r.chance(1, 2), &r.bytes(kl));
            let tail = if hostile == 6 {
                match r.below(3) {
                    0 => format!("${salt}"),
                    1 => String::new(),
                    _ => format!("${salt}${key}$extra"),
                }
            } else {
                format!("${salt}${key}")
            };
            ("argon2", format!("{{{}}}${alg}${ver}{}{tail}", case_variant(r, "argon2"), params.join(",")))
        }
        15 => {
            let tag = *r.pick(&["pbkdf2_sha256", "md5", "smd5", "cleartext", "bcrypt", "", "sha1", "ssha384", "PB\u{212a}DF2-SHA256", "CRYPT\u{0130}", "\u{17f}ha"]);
            let n = r.range(0, 30) as usize;
            ("other-tag", format!("{{{tag}}}{}", b64(STD, true, &r.bytes(n))))
        }
        _ => {
            let n = r.range(0, 30) as usize;
            let u = r.chance(1, 3);
            let s = rand_text(r, n, u);
            let pre = *r.pick(&["", "{", "{sha", "pbkdf2_sha256", "ipaNTHash:", "sambaNTPassword:", "$6$", "{}", "}{", "ipaNTHash:  "]);
            ("garbage", format!("{pre}{s}"))
        }
    }
}

const HOT: &[&str] = &["$", "=", ".", "+", "-", "_", "/", "{", "}", ",", " ", "0", "A", "z", "é", "\u{212a}", "\n", "v=", "$$"];

fn mutate(r: &mut Rng, s: &str) -> String {
    let mut cs: Vec<char> = s.chars().collect();
    let n = r.range(1, 2);
    for _ in 0..n {
        let len = cs.len();
        match r.below(8) {
            0 if len > 0 => {
                cs.remove(r.below(len as u64) as usize);
            }
            1 => {
                let i = r.below(len as u64 + 1) as usize;
                for (k, c) in r.pick(HOT).chars().enumerate() {
                    cs.insert(i + k, c);
                }
            }
            2 if len > 0 => {
                let i = r.below(len as u64) as usize;
                cs[i] = r.pick(HOT).chars().next().unwrap();
            }
            3 if len > 0 => {
                cs.truncate(r.below(len as u64) as usize);
            }
            4 => cs.extend(r.pick(HOT).chars()),
            5 if len > 1 => {
                // bump the last symbol: non-canonical trailing bits
                let i = len - 1 - if cs[len - 1] == '=' { cs.iter().rev().take_while(|c| **c == '=').count().min(len - 1) } else { 0 };
                cs[i] = match cs[i] {
                    'A' => 'B',
                    'Q' => 'R',
                    'g' => 'h',
                    'w' => 'x',
                    c => char::from_u32(c as u32 + 1).unwrap_or('B'),
                };
            }
            6 => {
                // strip or add padding
                if cs.last() == Some(&'=') {
                    cs.pop();
                } else {
                    cs.push('=');
                }
            }
            _ if len > 0 => {
                let i = r.below(len as u64) as usize;
                cs[i] = match cs[i] {
                    '+' => '.',
                    '.' => '+',
                    '-' => '+',
                    '_' => '/',
                    '/' => '_',
                    c if c.is_ascii_lowercase() => c.to_ascii_uppercase(),
                    c => c.to_ascii_lowercase(),
                };
            }
            _ => {}
        }
    }
    cs.into_iter().collect()
}

struct Ctx {
    drv: Driver,
    rep: Report,
}

impl Ctx {
    fn parse_batch(&mut self, items: Vec<(String, String)>) {
        let lines: Vec<String> = items.iter().map(|(_, s)| format!("parse {}", hex(s.as_bytes()))).collect();
        // keep each pipe write small
        let mut replies = Vec::with_capacity(lines.len());
        for ch in lines.chunks(40) {
            replies.extend(self.drv.ask_batch(ch));
        }
        for ((fam, s), model) in items.iter().zip(replies.iter()) {
            let got = match ktry(s) {
                Ok(r) => canon(&r),
                Err(_) => "panic".into(),
            };
            let head: String = got.split(' ').take(2).collect::<Vec<_>>().join(" ");
            self.rep.count(&format!("parse:{fam}:{head}"));
            let reached = got != "err NoDecoderFound" || s.starts_with('{');
            self.rep.case(if reached { Some(format!("p:{s}")) } else { None });
            if self.rep.evaluations % 4001 == 7 {
                self.rep.sample(json!({"import": s, "impl": got, "model": model}));
            }
            if *model != got {
                self.rep.fail(Failure {
                    kind: "impl-vs-model".into(),
                    class: format!("parse-differs:{fam}"),
                    input: json!({"stream": "parse", "import": s}),
                    expected: model.clone(),
                    observed: got,
                });
            }
        }
    }
}

fn main() {
    let args = Args::parse();
    install_quiet_hook();
    let mut ctx = Ctx {
        drv: Driver::spawn(&args.driver),
        rep: Report::new(
            "pwformat-model",
            "import strings of every format family (fields random, lengths ±1 around each guard, tag case variants, cost \
             spellings) and 1-2 step mutations of them (delete/insert/replace/truncate, padding, alphabet swaps, trailing \
             bits), model-rendered records, $5$/$6$ strings, guard lengths; real Password::try_from / verify vs km_c30; \
             non-trivial = the string reaches a format parser (not refused by the leading prefix chain); distinct = string",
        ),
    };
    if let Some(path) = &args.replay {
        let v: serde_json::Value = serde_json::from_str(&std::fs::read_to_string(path).unwrap()).unwrap();
        let inp = if v["input"].is_object() { v["input"].clone() } else { v["model_disagreements"][0]["input"].clone() };
        if let Some(s) = inp["import"].as_str() {
            ctx.parse_batch(vec![("replay".into(), s.to_string())]);
        }
        ctx.rep.write(&args.out);
        println!("c30fmt: replay, {} failures", ctx.rep.failures.len());
        return;
    }

    // ---- parse
    let n = args.cases(12_000, 400_000);
    let mut batch = vec![];
    for i in 0..n {
        let mut r = Rng::for_case(args.seed ^ 0xf0, i);
        let (fam, s) = wellformed(&mut r);
        let s = if r.chance(45, 100) { mutate(&mut r, &s) } else { s };
        batch.push((fam.to_string(), s));
        if batch.len() >= 2000 {
            ctx.parse_batch(std::mem::take(&mut batch));
        }
    }
    ctx.parse_batch(std::mem::take(&mut batch));

    // ---- render: the model writes, the real code reads
    let nr = args.cases(1500, 30_000);
    for i in 0..nr {
        let mut r = Rng::for_case(args.seed ^ 0x4e, i);
        let (line, expect) = match r.below(6) {
            0 => {
                let c = r.below(1 << 32);
                let sl = r.range(0, 16) as usize;
                let salt = rand_text(&mut r, sl, true).replace('$', "s");
                let hl = r.range(32, 70) as usize;
                let h = r.bytes(hl);
                (format!("render django {c} {} {}", hex(salt.as_bytes()), hex(&h)), format!("ok PBKDF2 {c} {} {}", hex(salt.as_bytes()), hex(&h)))
            }
            1 => {
                let (tag, kdf, min) = *r.pick(&[("pbkdf2", "PBKDF2_SHA1", 19), ("pbkdf2-sha1", "PBKDF2_SHA1", 19), ("pbkdf2-sha256", "PBKDF2", 32), ("pbkdf2-sha512", "PBKDF2_SHA512", 32)]);
                let tg = case_variant(&mut r, tag);
                let c = r.below(1 << 32);
                let sl = r.range(0, 24) as usize;
                let s = r.bytes(sl);
                let hl = r.range(min, 70) as usize;
                let h = r.bytes(hl);
                (format!("render pbkdf2 {} {c} {} {}", hex(tg.as_bytes()), hex(&s), hex(&h)), format!("ok {kdf} {c} {} {}", hex(&s), hex(&h)))
            }
            2 => {
                let (tag, kdf, n, salted) = *r.pick(&[("sha", "SHA1", 20usize, false), ("ssha", "SSHA1", 20, true), ("sha256", "SHA256", 32, false), ("ssha256", "SSHA256", 32, true), ("sha512", "SHA512", 64, false), ("ssha512", "SSHA512", 64, true)]);
                let tg = case_variant(&mut r, tag);
                let h = r.bytes(n);
                let lo = if tag == "ssha512" { 1 } else { 0 };
                let sl = if salted { r.range(lo, 20) as usize } else { 0 };
                let s = r.bytes(sl);
                let exp = if salted { format!("ok {kdf} {} {}", hex(&s), hex(&h)) } else { format!("ok {kdf} {}", hex(&h)) };
                (format!("render ds {} {} {}", hex(tg.as_bytes()), hex(&h), hex(&s)), exp)
            }
            3 => {
                let hl = r.range(0, 24) as usize;
                let h = r.bytes(hl);
                (format!("render samba {} {}", r.below(2), hex(&h)), format!("ok NT_MD4 {}", hex(&h)))
            }
            4 => {
                let hl = r.range(0, 24) as usize;
                let h = r.bytes(hl);
                (format!("render ipa {} {}", r.below(2), hex(&h)), format!("ok NT_MD4 {}", hex(&h)))
            }
            _ => {
                let tg = case_variant(&mut r, "crypt");
                let sl = r.range(0, 9) as usize;
                let salt = h64s(&mut r, sl);
                let hl = r.range(0, 30) as usize;
                let mut hash = h64s(&mut r, hl);
                if r.chance(1, 6) {
                    hash.push_str("$x$");
                }
                (format!("render md5 {} {} {}", hex(tg.as_bytes()), hex(salt.as_bytes()), hex(hash.as_bytes())), format!("ok CRYPT_MD5 {} {}", hex(salt.as_bytes()), hex(hash.as_bytes())))
            }
        };
        let rendered = ctx.drv.ask(&line);
        let s = String::from_utf8(unhex(&rendered)).unwrap_or_else(|_| "<bad driver reply>".into());
        let got = match ktry(&s) {
            Ok(r) => canon(&r),
            Err(_) => "panic".into(),
        };
        ctx.rep.count(&format!("render:{}", line.split(' ').nth(1).unwrap()));
        ctx.rep.case(Some(format!("r:{s}")));
        if got != expect {
            ctx.rep.fail(Failure {
                kind: "impl-vs-model".into(),
                class: "model-rendered-record-parsed-differently".into(),
                input: json!({"stream": "render", "import": s, "request": line}),
                expected: expect,
                observed: got,
            });
        }
    }

    // ---- sc: when the model says the string is unreadable, the real verify never accepts
    let ns = args.cases(1500, 30_000);
    for i in 0..ns {
        let mut r = Rng::for_case(args.seed ^ 0x5c, i);
        let id = *r.pick(&["5", "6"]);
        let rounds = match r.below(10) {
            0 => String::new(),
            1 => "rounds=999$".into(),
            2 => "rounds=1000$".into(),
            3 => "rounds=01000$".into(), // (the maximum, 999999999, is valid and would hash for hours)
            4 => "rounds=1000000000$".into(),
            5 => format!("rounds={}$", cost_str(&mut r)),
            6 => "rounds=+1500$".into(),
            7 => "rounds=18446744073709551616$".into(),
            _ => format!("rounds={}$", r.range(1000, 1400)),
        };
        // a readable string with a large round count is hashed for real: keep those cheap
        let rounds = match rounds.strip_prefix("rounds=").and_then(|x| x.strip_suffix('$')).and_then(|x| x.trim_start_matches('+').parse::<u64>().ok()) {
            Some(n) if (20_000..1_000_000_000).contains(&n) => "rounds=1999$".to_string(),
            _ => rounds,
        };
        let sl = r.range(0, 18) as usize;
        let hl = if id == "5" { 43 } else { 86 };
        let mut s = format!("${id}${rounds}{}${}", h64s(&mut r, sl), h64s(&mut r, hl));
        if r.chance(1, 2) {
            s = mutate(&mut r, &s);
        }
        if !(s.starts_with("$5$") || s.starts_with("$6$")) {
            continue;
        }
        // never hash for real with a huge (valid) round count
        if let Some(i) = s.find("rounds=") {
            let d: String = s[i + 7..].chars().take_while(|c| *c == '+' || c.is_ascii_digit()).filter(|c| *c != '+').collect();
            if d.len() >= 6 && d.len() <= 9 {
                continue;
            }
        }
        let idc = &s[1..2];
        let model = ctx.drv.ask(&format!("sc {idc} {}", hex(s.as_bytes())));
        let p = match ktry(&format!("{{crypt}}{s}")) {
            Ok(Ok(p)) => p,
            _ => continue,
        };
        let got = kverify(&p, "password");
        ctx.rep.count(&format!("sc:model-{}:impl-{}", model.split(' ').next().unwrap(), match &got { Ok(b) => b.to_string(), Err(e) => e.clone() }));
        ctx.rep.case(if model == "bad" { Some(format!("s:{s}")) } else { None });
        if model == "bad" && got == Ok(true) {
            ctx.rep.fail(Failure {
                kind: "impl-vs-model".into(),
                class: "sha-crypt-string-read-differently".into(),
                input: json!({"stream": "sc", "import": format!("{{crypt}}{s}")}),
                expected: "model: unreadable -> never accepted".into(),
                observed: "accepted".into(),
            });
        }
    }

    // ---- guard
    for n in (0..=40).map(|k| 492 + k).chain([0usize, 1, 64, 1000, 4096]) {
        let ct: String = "a".repeat(n);
        let imp = format!("{{SHA}}{}", b64(STD, true, &sha1(ct.as_bytes())));
        let p = Password::try_from(imp.as_str()).expect("sha import");
        let got = kverify(&p, &ct);
        let model = ctx.drv.ask(&format!("guard {n}"));
        let refused = if model == "1" { Ok(false) } else { Ok(true) };
        ctx.rep.count(&format!("guard:{}", if model == "1" { "refused" } else { "hashed" }));
        ctx.rep.case(Some(format!("g:{n}")));
        if got != refused {
            ctx.rep.fail(Failure {
                kind: "impl-vs-model".into(),
                class: "length-guard-differs".into(),
                input: json!({"stream": "guard", "len": n}),
                expected: format!("model tooLong={model}"),
                observed: format!("{got:?}"),
            });
        }
    }

    ctx.rep.model_requests = ctx.drv.requests;
    ctx.rep.write(&args.out);
    println!("c30fmt: {} cases, {} distinct non-trivial, {} failures", ctx.rep.evaluations, ctx.rep.nontrivial_keys.len(), ctx.rep.failures.len());
}
