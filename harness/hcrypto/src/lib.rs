//! Harness crate group for properties decided on `kanidm_lib_crypto` alone (C30).
//! Helpers: hex / base64 dialect encoders written here (not taken from the crates kanidm uses),
//! cleartext generators, and the canonical one-line rendering of a parsed `Password`.
pub use hcommon::*;

use kanidm_lib_crypto::{DbPasswordV1, Password, PasswordError};

pub fn hex(b: &[u8]) -> String {
    if b.is_empty() {
        return "-".into();
    }
    b.iter().map(|x| format!("{x:02x}")).collect()
}

pub fn unhex(s: &str) -> Vec<u8> {
    if s == "-" {
        return vec![];
    }
    (0..s.len() / 2).map(|i| u8::from_str_radix(&s[2 * i..2 * i + 2], 16).expect("hex")).collect()
}

pub const STD: &[u8; 64] = b"ABCDEFGHIJKLMNOPQRSTUVWXYZabcdefghijklmnopqrstuvwxyz0123456789+/";
pub const URL: &[u8; 64] = b"ABCDEFGHIJKLMNOPQRSTUVWXYZabcdefghijklmnopqrstuvwxyz0123456789-_";
pub const H64: &[u8; 64] = b"./0123456789ABCDEFGHIJKLMNOPQRSTUVWXYZabcdefghijklmnopqrstuvwxyz";

/// RFC 4648 encoder over an arbitrary 64-symbol alphabet (own code).
pub fn b64(alpha: &[u8; 64], pad: bool, b: &[u8]) -> String {
    let mut out = String::new();
    for ch in b.chunks(3) {
        let n = (ch[0] as u32) << 16 | (*ch.get(1).unwrap_or(&0) as u32) << 8 | *ch.get(2).unwrap_or(&0) as u32;
        let syms = [(n >> 18) & 63, (n >> 12) & 63, (n >> 6) & 63, n & 63];
        let keep = ch.len() + 1;
        for (i, s) in syms.iter().enumerate() {
            if i < keep {
                out.push(alpha[*s as usize] as char);
            } else if pad {
                out.push('=');
            }
        }
    }
    out
}

/// passlib's "adapted base64": standard alphabet with '.' for '+', no padding.
pub fn ab64(b: &[u8]) -> String {
    b64(STD, false, b).replace('+', ".")
}

/// Canonical one-line rendering of what an import string was parsed into (through the public
/// `to_dbpasswordv1`), or of the error kind.
pub fn canon(r: &Result<Password, PasswordError>) -> String {
    match r {
        Err(e) => format!(
            "err {}",
            match e {
                PasswordError::Base64Decoding => "Base64Decoding",
                PasswordError::InvalidFormat => "InvalidFormat",
                PasswordError::InvalidKeyLength => "InvalidKeyLength",
                PasswordError::InvalidLength => "InvalidLength",
                PasswordError::InvalidSaltLength => "InvalidSaltLength",
                PasswordError::UnsupportedAlgorithm(_) => "UnsupportedAlgorithm",
                PasswordError::NoDecoderFound(_) => "NoDecoderFound",
                PasswordError::ParsingFailed => "ParsingFailed",
            }
        ),
        Ok(p) => canon_db(p.to_dbpasswordv1()),
    }
}

pub fn canon_db(db: DbPasswordV1) -> String {
    match db {
        DbPasswordV1::TPM_ARGON2ID { m, t, p, v, s, k } => {
            let (s, k): (Vec<u8>, Vec<u8>) = (s.into(), k.into());
            format!("ok TPM_ARGON2ID {m} {t} {p} {v} {} {}", hex(&s), hex(&k))
        }
        DbPasswordV1::ARGON2ID { m, t, p, v, s, k } => {
            let (s, k): (Vec<u8>, Vec<u8>) = (s.into(), k.into());
            format!("ok ARGON2ID {m} {t} {p} {v} {} {}", hex(&s), hex(&k))
        }
        DbPasswordV1::PBKDF2(c, s, h) => format!("ok PBKDF2 {c} {} {}", hex(&s), hex(&h)),
        DbPasswordV1::PBKDF2_SHA1(c, s, h) => format!("ok PBKDF2_SHA1 {c} {} {}", hex(&s), hex(&h)),
        DbPasswordV1::PBKDF2_SHA512(c, s, h) => format!("ok PBKDF2_SHA512 {c} {} {}", hex(&s), hex(&h)),
        DbPasswordV1::SHA1(h) => format!("ok SHA1 {}", hex(&h)),
        DbPasswordV1::SSHA1(s, h) => format!("ok SSHA1 {} {}", hex(&s), hex(&h)),
        DbPasswordV1::SHA256(h) => format!("ok SHA256 {}", hex(&h)),
        DbPasswordV1::SSHA256(s, h) => format!("ok SSHA256 {} {}", hex(&s), hex(&h)),
        DbPasswordV1::SHA512(h) => format!("ok SHA512 {}", hex(&h)),
        DbPasswordV1::SSHA512(s, h) => format!("ok SSHA512 {} {}", hex(&s), hex(&h)),
        DbPasswordV1::NT_MD4(h) => format!("ok NT_MD4 {}", hex(&h)),
        DbPasswordV1::CRYPT_MD5 { s, h } => {
            let (s, h): (Vec<u8>, Vec<u8>) = (s.into(), h.into());
            format!("ok CRYPT_MD5 {} {}", hex(&s), hex(&h))
        }
        DbPasswordV1::CRYPT_SHA256 { h } => format!("ok CRYPT_SHA256 {}", hex(h.as_bytes())),
        DbPasswordV1::CRYPT_SHA512 { h } => format!("ok CRYPT_SHA512 {}", hex(h.as_bytes())),
    }
}

static QUIET: std::sync::atomic::AtomicBool = std::sync::atomic::AtomicBool::new(false);

/// Panics caught on purpose (inside `kverify` / `ktry`) stay silent; any other panic is reported as usual.
pub fn install_quiet_hook() {
    let default = std::panic::take_hook();
    std::panic::set_hook(Box::new(move |info| {
        if !QUIET.load(std::sync::atomic::Ordering::SeqCst) {
            default(info);
        }
    }));
}

/// `Password::verify` with panics turned into a value (a panic is never an accept).
pub fn kverify(p: &Password, ct: &str) -> Result<bool, String> {
    QUIET.store(true, std::sync::atomic::Ordering::SeqCst);
    let r = std::panic::catch_unwind(std::panic::AssertUnwindSafe(|| p.verify(ct)));
    QUIET.store(false, std::sync::atomic::Ordering::SeqCst);
    match r {
        Ok(Ok(b)) => Ok(b),
        Ok(Err(e)) => Err(format!("error:{e:?}")),
        Err(_) => Err("panic".into()),
    }
}

pub fn ktry(imp: &str) -> Result<Result<Password, PasswordError>, String> {
    QUIET.store(true, std::sync::atomic::Ordering::SeqCst);
    let r = std::panic::catch_unwind(|| Password::try_from(imp)).map_err(|_| "panic".to_string());
    QUIET.store(false, std::sync::atomic::Ordering::SeqCst);
    r
}

const LETTERS: &str = "abcdefghijklmnopqrstuvwxyzABCDEFGHIJKLMNOPQRSTUVWXYZ0123456789";
const PUNCT: &str = " !\"#$%&'()*+,-./:;<=>?@[\\]^_`{|}~";
const NONASCII: &[&str] = &["é", "ß", "ñ", "Ω", "я", "中", "日本", "한", "🔑", "😀", "𝒳", "e\u{301}", "İ", "\u{a0}", "\u{200b}", "ﬁ", "\u{212b}"];
pub const EDGE_LENS: &[usize] = &[
    0, 1, 2, 7, 8, 15, 16, 17, 31, 32, 33, 55, 56, 57, 63, 64, 65, 72, 73, 111, 112, 113, 119, 120, 127, 128, 129, 255,
    256, 257, 500, 511, 512,
];

pub fn rand_text(r: &mut Rng, nbytes: usize, uni: bool) -> String {
    let mut out = String::new();
    while out.len() < nbytes {
        let ch: String = if uni && r.chance(45, 100) {
            r.pick(NONASCII).to_string()
        } else {
            let set = if r.chance(8, 10) { LETTERS } else { PUNCT };
            let cs: Vec<char> = set.chars().collect();
            r.pick(&cs).to_string()
        };
        if out.len() + ch.len() > nbytes {
            out.push('x');
        } else {
            out.push_str(&ch);
        }
    }
    out
}

pub fn rand_cleartext(r: &mut Rng) -> String {
    match r.below(100) {
        0..=29 => {
            let n = r.range(1, 40) as usize;
            rand_text(r, n, false)
        }
        30..=54 => {
            let n = r.range(1, 60) as usize;
            rand_text(r, n, true)
        }
        55..=89 => {
            let n = *r.pick(EDGE_LENS);
            let u = r.chance(1, 2);
            rand_text(r, n, u)
        }
        90..=93 => {
            let n = r.range(1, 20) as usize;
            let mut s = rand_text(r, n, false);
            s.push('\0');
            s
        }
        _ => r.pick(&["password", "", " ", "pässwörd", "パスワード", "correct horse battery staple", "\t", "🔑"]).to_string(),
    }
}

/// Candidate cleartexts around `ct`: the right one first, then near misses.
pub fn near_misses(r: &mut Rng, ct: &str) -> Vec<(&'static str, String)> {
    let mut c: Vec<(&'static str, String)> = vec![("right", ct.to_string()), ("append-space", format!("{ct} "))];
    let chars: Vec<char> = ct.chars().collect();
    if !chars.is_empty() {
        c.push(("drop-last", chars[..chars.len() - 1].iter().collect()));
        c.push(("drop-first", chars[1..].iter().collect()));
        let sw: String = chars[0]
            .to_uppercase()
            .chain(std::iter::empty())
            .collect::<String>();
        let sw = if sw == chars[0].to_string() { chars[0].to_lowercase().collect::<String>() } else { sw };
        c.push(("swapcase", format!("{sw}{}", chars[1..].iter().collect::<String>())));
        let i = r.below(chars.len() as u64) as usize;
        let mut b = chars.clone();
        b[i] = char::from_u32(b[i] as u32 + 1).unwrap_or('x');
        c.push(("bump-char", b.iter().collect()));
        c.push(("doubled", format!("{ct}{ct}")));
    } else {
        c.push(("one-space", " ".into()));
    }
    c.push(("append-nul", format!("{ct}\0")));
    let n = r.range(1, 20) as usize;
    c.push(("unrelated", rand_text(r, n, false)));
    let mut seen = std::collections::BTreeSet::new();
    c.into_iter().filter(|(_, t)| seen.insert(t.clone())).collect()
}

pub fn case_variant(r: &mut Rng, tag: &str) -> String {
    match r.below(10) {
        0..=4 => tag.to_uppercase(),
        5..=7 => tag.to_lowercase(),
        _ => tag.chars().map(|c| if r.chance(1, 2) { c.to_ascii_uppercase() } else { c.to_ascii_lowercase() }).collect(),
    }
}
