//! Shared harness helpers: deterministic PRNG, Lean driver process, run report.
use serde_json::{json, Value};
use std::collections::{BTreeMap, BTreeSet};
use std::io::{BufRead, BufReader, Write};
use std::process::{Child, ChildStdin, ChildStdout, Command, Stdio};

/// SplitMix64: every random choice of a run derives from one state seeded by VERIF_SEED.
#[derive(Clone, Debug)]
pub struct Rng(pub u64);

impl Rng {
    pub fn new(seed: u64) -> Self {
        Rng(seed ^ 0x9E37_79B9_7F4A_7C15)
    }
    /// Independent stream for case `i` (so a single case replays from (seed, i)).
    pub fn for_case(seed: u64, i: u64) -> Self {
        let mut r = Rng::new(seed.wrapping_mul(0xA24B_AED4_963E_E407).wrapping_add(i));
        r.next();
        r
    }
    pub fn next(&mut self) -> u64 {
        self.0 = self.0.wrapping_add(0x9E37_79B9_7F4A_7C15);
        let mut z = self.0;
        z = (z ^ (z >> 30)).wrapping_mul(0xBF58_476D_1CE4_E5B9);
        z = (z ^ (z >> 27)).wrapping_mul(0x94D0_49BB_1331_11EB);
        z ^ (z >> 31)
    }
    /// Uniform in 0..n (n > 0).
    pub fn below(&mut self, n: u64) -> u64 {
        self.next() % n
    }
    pub fn range(&mut self, lo: u64, hi_incl: u64) -> u64 {
        lo + self.below(hi_incl - lo + 1)
    }
    pub fn chance(&mut self, num: u64, den: u64) -> bool {
        self.below(den) < num
    }
    pub fn pick<'a, T>(&mut self, xs: &'a [T]) -> &'a T {
        &xs[self.below(xs.len() as u64) as usize]
    }
    pub fn shuffle<T>(&mut self, xs: &mut [T]) {
        for i in (1..xs.len()).rev() {
            let j = self.below(i as u64 + 1) as usize;
            xs.swap(i, j);
        }
    }
    pub fn bytes(&mut self, n: usize) -> Vec<u8> {
        (0..n).map(|_| self.next() as u8).collect()
    }
}

/// The compiled Lean model behind its line protocol.
pub struct Driver {
    child: Child,
    stdin: ChildStdin,
    stdout: BufReader<ChildStdout>,
    pub requests: u64,
}

impl Driver {
    pub fn spawn(path: &str) -> Driver {
        let mut child = Command::new(path)
            .stdin(Stdio::piped())
            .stdout(Stdio::piped())
            .spawn()
            .unwrap_or_else(|e| panic!("cannot start Lean driver {path}: {e}"));
        let stdin = child.stdin.take().unwrap();
        let stdout = BufReader::new(child.stdout.take().unwrap());
        Driver {
            child,
            stdin,
            stdout,
            requests: 0,
        }
    }
    /// One request line in, one reply line out.
    pub fn ask(&mut self, line: &str) -> String {
        debug_assert!(!line.contains('\n'));
        self.stdin.write_all(line.as_bytes()).unwrap();
        self.stdin.write_all(b"\n").unwrap();
        self.stdin.flush().unwrap();
        let mut reply = String::new();
        let n = self.stdout.read_line(&mut reply).unwrap();
        if n == 0 {
            panic!("Lean driver closed its output on request: {line}");
        }
        self.requests += 1;
        reply.trim_end().to_string()
    }
    /// Pipelined variant of `ask`: same replies, far fewer context switches.
    pub fn ask_batch(&mut self, lines: &[String]) -> Vec<String> {
        let mut out = Vec::with_capacity(lines.len());
        for chunk in lines.chunks(200) {
            let mut buf = String::new();
            for l in chunk {
                debug_assert!(!l.contains('\n'));
                buf.push_str(l);
                buf.push('\n');
            }
            // stay well below the pipe capacity so neither side blocks
            assert!(buf.len() < 48_000, "batch too large for one pipe write");
            self.stdin.write_all(buf.as_bytes()).unwrap();
            self.stdin.flush().unwrap();
            for l in chunk {
                let mut reply = String::new();
                let n = self.stdout.read_line(&mut reply).unwrap();
                if n == 0 {
                    panic!("Lean driver closed its output on request: {l}");
                }
                out.push(reply.trim_end().to_string());
            }
            self.requests += chunk.len() as u64;
        }
        out
    }
}

impl Drop for Driver {
    fn drop(&mut self) {
        let _ = self.child.kill();
        let _ = self.child.wait();
    }
}

/// A failure found by a run.
#[derive(Clone, Debug)]
pub struct Failure {
    /// "impl-vs-oracle" (the property itself fails on the implementation, with a concrete
    /// input) or "impl-vs-model" (correspondence broke: model and code disagree).
    pub kind: String,
    /// Class signature used to match known findings (e.g. "D1:isolated-not-under-or");
    /// "unclassified" when no recogniser matches.
    pub class: String,
    /// The (minimised) input / op sequence, enough to replay.
    pub input: Value,
    pub expected: String,
    pub observed: String,
}

/// What a run covered; serialised for the check script, which writes the evidence file.
#[derive(Default)]
pub struct Report {
    pub stream: String,
    pub evaluations: u64,
    pub nontrivial_keys: BTreeSet<String>,
    pub histogram: BTreeMap<String, u64>,
    pub samples: Vec<Value>,
    pub failures: Vec<Failure>,
    pub notes: Vec<String>,
    pub rule: String,
    pub exhaustive: bool,
    pub model_requests: u64,
}

impl Report {
    pub fn new(stream: &str, rule: &str) -> Report {
        Report {
            stream: stream.to_string(),
            rule: rule.to_string(),
            ..Default::default()
        }
    }
    pub fn count(&mut self, key: &str) {
        *self.histogram.entry(key.to_string()).or_insert(0) += 1;
    }
    pub fn count_n(&mut self, key: &str, n: u64) {
        *self.histogram.entry(key.to_string()).or_insert(0) += n;
    }
    /// Record one evaluated case; `nontrivial` = Some(distinct key) when it meets the rule.
    pub fn case(&mut self, nontrivial: Option<String>) {
        self.evaluations += 1;
        if let Some(k) = nontrivial {
            self.nontrivial_keys.insert(k);
        }
    }
    pub fn sample(&mut self, v: Value) {
        if self.samples.len() < 5 {
            self.samples.push(v);
        }
    }
    pub fn fail(&mut self, f: Failure) {
        // keep the report bounded
        if self.failures.len() < 50 {
            self.failures.push(f);
        } else {
            self.count("failures-dropped");
        }
    }
    pub fn note(&mut self, s: impl Into<String>) {
        self.notes.push(s.into());
    }
    pub fn to_json(&self) -> Value {
        json!({
            "stream": self.stream,
            "evaluations": self.evaluations,
            "distinct_nontrivial": self.nontrivial_keys.len(),
            "rule": self.rule,
            "histogram": self.histogram,
            "samples": self.samples,
            "exhaustive": self.exhaustive,
            "model_requests": self.model_requests,
            "notes": self.notes,
            "failures": self.failures.iter().map(|f| json!({
                "kind": f.kind, "class": f.class, "input": f.input,
                "expected": f.expected, "observed": f.observed,
            })).collect::<Vec<_>>(),
        })
    }
    /// Write the report where the check script expects it.
    pub fn write(&self, path: &str) {
        std::fs::write(path, serde_json::to_string_pretty(&self.to_json()).unwrap())
            .unwrap_or_else(|e| panic!("cannot write report {path}: {e}"));
    }
}

/// Command line shared by all harness binaries:
/// `--seed N --tier quick|thorough --driver PATH --out REPORT.json [--replay FILE] [--budget X]`
pub struct Args {
    pub seed: u64,
    pub tier: String,
    pub driver: String,
    pub out: String,
    pub replay: Option<String>,
    /// Multiplier applied to case counts (the check script raises it when a fingerprint
    /// changed or an obligation broke and a failing input is being searched for).
    pub budget: u64,
    pub extra: BTreeMap<String, String>,
}

impl Args {
    pub fn parse() -> Args {
        let mut a = Args {
            seed: 1,
            tier: "quick".into(),
            driver: String::new(),
            out: "report.json".into(),
            replay: None,
            budget: 1,
            extra: BTreeMap::new(),
        };
        let v: Vec<String> = std::env::args().skip(1).collect();
        let mut i = 0;
        while i < v.len() {
            let key = v[i].clone();
            let val = v.get(i + 1).cloned().unwrap_or_default();
            match key.as_str() {
                "--seed" => a.seed = val.parse().expect("seed"),
                "--tier" => a.tier = val,
                "--driver" => a.driver = val,
                "--out" => a.out = val,
                "--replay" => a.replay = Some(val),
                "--budget" => a.budget = val.parse().expect("budget"),
                k if k.starts_with("--") => {
                    a.extra.insert(k[2..].to_string(), val);
                }
                _ => panic!("bad argument {key}"),
            }
            i += 2;
        }
        a
    }
    pub fn thorough(&self) -> bool {
        self.tier == "thorough"
    }
    /// `quick` cases for the quick tier, `thorough` for the thorough tier, times budget.
    pub fn cases(&self, quick: u64, thorough: u64) -> u64 {
        (if self.thorough() { thorough } else { quick }) * self.budget
    }
}

/// Greedy delta-debugging on a list: drop chunks while `fails` still holds.
pub fn shrink_list<T: Clone>(mut xs: Vec<T>, mut fails: impl FnMut(&[T]) -> bool) -> Vec<T> {
    let mut chunk = xs.len().max(1) / 2;
    while chunk >= 1 {
        let mut i = 0;
        let mut progressed = false;
        while i + chunk <= xs.len() {
            let mut cand = xs.clone();
            cand.drain(i..i + chunk);
            if fails(&cand) {
                xs = cand;
                progressed = true;
            } else {
                i += chunk;
            }
        }
        if !progressed {
            if chunk == 1 {
                break;
            }
            chunk /= 2;
        }
    }
    xs
}
