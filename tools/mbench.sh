#!/bin/bash
# Mutation bench: run /verif's checks against a *scratch copy* of /repo with a seeded change
# applied, without touching /repo (other work builds against /repo concurrently).
#
#   tools/mbench.sh setup                 create /tmp/mb/{repo,verif} (worktree of /repo HEAD + the
#                                         uncommitted hook edits; copy of /verif with path deps
#                                         rewritten to the scratch repo; own cargo target dir)
#   tools/mbench.sh sync                  refresh both copies from /repo and /verif (keeps target/)
#   tools/mbench.sh run <patch> Cxx...    apply <patch> to the scratch repo, run the quick checks,
#                                         print their last lines, restore the scratch repo
#   tools/mbench.sh clean                 remove everything (worktree, copies, build output)
#
# The registered checks never use this; it exists for the seeded-change experiments (DESIGN §11.4).
set -u
MB=${MB:-/tmp/mb}
cmd=${1:-}; shift || true

sync_verif() {
  mkdir -p $MB/verif
  rsync -a --delete --exclude harness/target --exclude .git --exclude evidence/logs --exclude evidence/replays \
        /verif/ $MB/verif/
  # path deps and #[path] includes -> scratch repo
  grep -rlE '/repo/|"/repo"' $MB/verif/harness --include=*.toml --include=*.rs | grep -v /target/ | \
    xargs -r sed -i -E "s#\"/repo\"#\"$MB/repo\"#g; s#/repo/#$MB/repo/#g"
  sed -i -E "s#$MB$MB/#$MB/#g" $(grep -rl "$MB$MB/" $MB/verif/harness 2>/dev/null) 2>/dev/null || true
}

sync_repo() {
  if [ ! -d $MB/repo ]; then
    git -C /repo worktree add -q --detach $MB/repo HEAD
  else
    git -C $MB/repo checkout -q -- . && git -C $MB/repo clean -fdq
    git -C $MB/repo checkout -q --detach "$(git -C /repo rev-parse HEAD)"
  fi
  # uncommitted hook edits of /repo (guarded, add-only) travel along as a temporary commit
  if ! git -C /repo diff --quiet; then
    git -C /repo diff | git -C $MB/repo apply && git -C $MB/repo add -A && \
      git -C $MB/repo -c user.name=mb -c user.email=mb@x commit -q -m "TEMP uncommitted hooks"
  fi
}

case "$cmd" in
  setup|sync)
    mkdir -p $MB
    sync_repo; sync_verif
    echo "bench ready: $MB (repo at $(git -C $MB/repo log --oneline | head -1))" ;;
  run)
    patch=$(readlink -f "$1"); shift
    git -C $MB/repo checkout -q -- . && git -C $MB/repo clean -fdq
    if ! git -C $MB/repo apply "$patch"; then echo "PATCH DOES NOT APPLY"; exit 2; fi
    rc_all=0
    for p in "$@"; do
      echo "=== $p on $(basename "$(dirname "$patch")")"
      (cd $MB/verif && VERIF_REPO=$MB/repo timeout 3000 ./check "$p" --tier "${MB_TIER:-quick}" 2>&1 | \
        grep -E "^(VIOLATION|KNOWN-FINDING|== |\[fingerprint\]|\[translate\].*FAILED|\[prove\])" | cut -c1-400)
    done
    git -C $MB/repo checkout -q -- . && git -C $MB/repo clean -fdq ;;
  clean)
    git -C /repo worktree remove --force $MB/repo 2>/dev/null; git -C /repo worktree prune
    rm -rf $MB ;;
  *) echo "usage: $0 setup|sync|run <patch> Cxx...|clean"; exit 2 ;;
esac
