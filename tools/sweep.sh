#!/bin/bash
# Run the quick (or $1) tier of every claimed check sequentially on the current tree and
# summarise verdicts and wall times. Evidence files are rewritten by the checks themselves.
tier=${1:-quick}
cd "$(dirname "$0")/.."
out=/tmp/sweep-$tier.log; : > $out
for p in $(python3 -c "import json; print(' '.join(c['property_id'] for c in json.load(open('MANIFEST.json'))['checks']))"); do
  t0=$(date +%s)
  ./check $p --tier $tier > /tmp/sweep-$p.log 2>&1; rc=$?
  t1=$(date +%s)
  echo "$p rc=$rc wall=$((t1-t0))s $(grep -c '^VIOLATION' /tmp/sweep-$p.log) violations $(grep -c '^KNOWN-FINDING' /tmp/sweep-$p.log) known | $(tail -n 1 /tmp/sweep-$p.log | cut -c1-120)" | tee -a $out
done
