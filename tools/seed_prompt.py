#!/usr/bin/env python3
"""Print the prompt given to a fresh, independent sub-agent that seeds a property-breaking change.
Usage: seed_prompt.py Cxx [variant-hint]"""
import json, sys
pid = sys.argv[1]
hint = sys.argv[2] if len(sys.argv) > 2 else ""
p = next(json.loads(l) for l in open('/verif/properties.jsonl') if json.loads(l)['id'] == pid)
print(f"""You are a careful Rust engineer doing a robustness experiment on the kanidm identity server (Rust). You have your own scratch git worktree of the repository at /tmp/seed/{pid} (already created; work ONLY there; never touch /repo or /verif, never read anything under /verif, and ignore the file server/lib/src/verif_hooks.rs).

Here is a semantic property the code base is supposed to satisfy:

  Title: {p['title']}
  Statement: {p['statement']}
  It is meant to hold for: {p['quantifier']['text']}
  Code it lives in: {', '.join(p['anchors']['files'])}

YOUR TASK: make ONE small, realistic change to the kanidm source (the kind of slip a maintainer could make in a refactor or "optimisation": a flipped comparison, a swapped or merged match arm, a dropped check, a wrong field or operand, an off-by-one, an early return, a cache not invalidated, two individually plausible edits that only misbehave together…) that BREAKS this property while the code still compiles and the EXISTING tests still pass. The change must need something specific to manifest — a particular multi-step sequence, an unusual or boundary input, a particular interleaving or fault point, or two cooperating sites that each look fine alone — not something ordinary use or the existing unit tests would expose at once. Do not add new features, do not touch tests, do not make the change look deliberately malicious; keep it to a few lines. {hint}

Then write a DEMONSTRATION: a new test (a `#[test]`/`#[qs_test]`/`#[idm_test]` added to the relevant test module, or a small standalone program) that FAILS with your change and PASSES without it, showing the property violated on a concrete input/sequence.

Practicalities (sandbox is offline): `source /w/out/rust_env.sh; export CARGO_NET_OFFLINE=true CARGO_TARGET_DIR=/tmp/seed-target-{pid}` before cargo commands (this target dir is yours alone and pre-warmed with the dependency builds; never use /tmp/seed-target or another target dir; after switching between patched and unpatched sources `touch` the files you changed so cargo rebuilds them, and check the "Compiling" line names your worktree). Build/test with `cargo test --offline -p <crate> --lib <filter>` (crate for server/lib is `kanidmd_lib`; its test binary takes several minutes to build the first time; lints are `deny` there: unused imports/variables fail the build). Run at least the existing tests of the modules you touched and of the modules that use them, with the change applied, and confirm they pass; then confirm your demonstration fails with the change and passes without it (`git stash`/re-apply inside your worktree is fine).

Deliverables, written to /tmp/seed/{pid}-out/ :
  patch.diff  — `git diff` of ONLY the source change (no demonstration in it)
  demo.diff   — `git diff` that adds ONLY the demonstration test/program (applies on top of the unchanged tree)
  meta.json   — {{"property": "{pid}", "summary": "...what the change does...", "needs_to_manifest": "...the specific sequence/input/interleaving...", "existing_tests_run": ["cargo command lines you ran and their result"], "demo_cmd": "exact cargo command that runs the demonstration", "demo_with_change": "fails: <assertion>", "demo_without_change": "passes"}}
Leave the worktree with the source change applied but not committed. Your final message: a short summary of the change, why existing tests do not notice it, and the commands you ran with their outcomes.""")
