#!/usr/bin/env python3
"""Regenerate MANIFEST.json from props/*.json (claimed properties) and properties.jsonl
(everything not yet claimed goes under not_applicable with its reason)."""
import json, os, glob
ROOT = os.path.dirname(os.path.dirname(os.path.abspath(__file__)))
props = [json.loads(l) for l in open(os.path.join(ROOT, "properties.jsonl"))]
pending = {}
pf = os.path.join(ROOT, "props", "_pending.json")
if os.path.exists(pf):
    pending = json.load(open(pf))
checks, na, engines = [], [], {}
for p in props:
    pid = p["id"]
    f = os.path.join(ROOT, "props", pid + ".json")
    if not os.path.exists(f):
        na.append({"property_id": pid, "reason": pending.get(pid, "not yet claimed: model/theorems/correspondence for this property are still being built (DESIGN.md §7 has the plan); no other technique is substituted")})
        continue
    c = json.load(open(f))
    if c.get("claimed", True) is False:
        na.append({"property_id": pid, "reason": c.get("unclaimed_reason", "not claimed")})
        continue
    checks.append({
        "property_id": pid,
        "quick_cmd": f"./check {pid} --tier quick",
        "thorough_cmd": f"./check {pid} --tier thorough",
        "evidence_file": f"evidence/{pid}.json",
        "replay_cmd_template": f"./check {pid} --replay {{path}}",
        "engine": "lean4-proof+correspondence",
        "level_claimed": {
            "category": c.get("level", "proof"),
            "text": c.get("level_text", ""),
            "design_ref": c.get("design_ref", f"DESIGN.md §7 {pid}"),
        },
        "level_note": c.get("level_note", "; ".join(c.get("trusted_base", []))),
        "technique": c.get("technique", "machine-checked proof in Lean 4 over a model tied to the source by translator and/or correspondence check"),
    })
hooks_commits = []
hf = os.path.join(ROOT, "props", "_hooks.json")
if os.path.exists(hf):
    hooks_commits = json.load(open(hf))["source_commits"]
m = {
    "version": 1,
    "setup_cmd": "./setup.sh",
    "hooks": {
        "guard": "cargo feature `verif-hooks` on kanidmd_lib (and the crates listed in DESIGN.md §5)",
        "enable": "the harness workspace /verif/harness depends on /repo crates by path with features = [\"verif-hooks\"]; every check runs `cargo build` there, which rebuilds from /repo's working tree",
        "baseline_off_cmd": "cd /repo && cargo nextest run --workspace --no-fail-fast --tool-config-file pb:/w/lib/nextest.toml --profile pb --test-threads 8 --offline",
        "source_commits": hooks_commits,
        "add_only": True,
    },
    "engines": [{
        "name": "lean4-proof+correspondence",
        "path": "check",
        "serves_properties": [c["property_id"] for c in checks],
        "kind_free_text": "Lean 4 theorems over executable models (lean/), models tied to /repo by a syn-based translator (harness/vtranslate) that regenerates tables/operators on every run and by a differential correspondence harness (harness/h*) that drives the real crates and the compiled Lean model with the same inputs; see DESIGN.md",
    }],
    "checks": checks,
    "notes": "See DESIGN.md. known_findings.json lists recorded genuine defects; `fix:` commits in /repo are listed there as fixed.",
    "not_applicable": na,
}
json.dump(m, open(os.path.join(ROOT, "MANIFEST.json"), "w"), indent=1)
print(f"MANIFEST.json: {len(checks)} checks, {len(na)} not claimed")
