#!/usr/bin/env python3
"""Print the prompt given to a sub-agent that EXTENDS the finished check of one property.
Usage: extend_prompt.py Cxx "task text" """
import json, sys
pid, task = sys.argv[1], sys.argv[2]
p = next(json.loads(l) for l in open('/verif/properties.jsonl') if json.loads(l)['id'] == pid)
print(f"""You are extending an existing, passing verification check for ONE property of kanidm (Rust identity server, source in /repo) inside the framework in /verif. Technique (fixed): machine-checked proof in Lean 4 over an executable model of the code, with the model tied to /repo's current source on every run by a translator (syn-based, regenerates tables/operators/orders into Lean) and/or a differential correspondence harness (drives the real Rust code in-process and the compiled Lean model with the same inputs and diffs), plus an independent oracle of the property evaluated on the real code.

FIRST read /verif/AGENT_GUIDE.md completely (the contract: file layout, definition of done, shared-file etiquette, harness API, Lean 4.33 practicalities). Then read /verif/notes/{pid}.md (what exists for this property: model, theorems, tie, blind spots), props/{pid}.json, and the files they name. The check currently passes: `cd /verif && ./check {pid} --tier quick` exits 0 (build outputs under /verif/lean/.lake and /verif/harness/target are warm; other agents build concurrently, cargo serialises on the target-dir lock).

THE PROPERTY ({pid}) — given and fixed:
  Title: {p['title']}
  Statement: {p['statement']}
  Quantifier (must hold for): {json.dumps(p['quantifier'], ensure_ascii=False)}
  Anchors: {json.dumps(p['anchors'], ensure_ascii=False)}

YOUR EXTENSION TASK (bring more of the real code inside the model / under theorems / under the tie):
{task}

Rules: the model transcribes what the code DOES; new theorems are stated for all inputs/states/histories (no sorry/axiom/native_decide/bv_decide, standard axioms only) each with a non-vacuity `example`, and are added to `lean.obligations` in props/{pid}.json followed by `./check {pid} --record`; new driver requests and harness streams tie the new model parts to the real code; the oracle is written from the property text only and is never loosened. Never edit kanidm's behaviour; hooks only as add-only wrappers in your own `pub mod` of /repo/server/lib/src/verif_hooks.rs (tell the lead at once — SendMessage to `main` — when a hook compiles so it gets committed; do not commit in /repo yourself). If the extension exposes a genuine defect of the code (failing input shown on the real code), keep the oracle strict, give the failure a stable `class`, and report the witness to the lead; if you need a known-finding class registered tell the lead (only the lead edits known_findings.json) and meanwhile keep that stream out of props so the claimed check keeps passing.

Keep the claimed check passing at every commit: `./check {pid} --tier quick` with VERIF_SEED=1,2,3 must exit 0 on the unchanged tree and stay within ~3 min each; thorough within ~15 min. Commit your own files in /verif early and often (`git add <paths> && git commit -q -m "{pid}: …" -- <paths>`; never `git add -A`), together with regenerated MANIFEST.json (`python3 tools/gen_manifest.py`), evidence/{pid}.json from a passing quick run, and an updated notes/{pid}.md (≤ 80 lines; say what is new, and which realistic code changes are now caught through which channel). You have about 60 minutes in total: plan for a first committed increment within 35 minutes, and stop adding new scope after 50 minutes — whatever is committed and passing is what counts; an uncommitted half-done extension is lost. Final message: files changed, new obligations (one line each), new streams with measured counts/times, any defect suspected (exact witness), hooks added.""")
