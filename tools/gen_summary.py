#!/usr/bin/env python3
"""Print the per-property status table of DESIGN §11.6 from props/*.json, known_findings.json and seeded/*/meta.json."""
import json, glob, os
R = os.path.dirname(os.path.dirname(os.path.abspath(__file__)))
props = [json.loads(l) for l in open(f"{R}/properties.jsonl")]
kf = json.load(open(f"{R}/known_findings.json"))
known, fixed = {}, {}
for f in kf["findings"]:
    known.setdefault(f["property"], []).append(f["id"])
for f in kf["fixed"]:
    for p in [f["property"]] + f.get("also", []):
        fixed.setdefault(p, []).append(f["id"])
seeds = {}
for m in glob.glob(f"{R}/seeded/*/meta.json"):
    d = json.load(open(m))
    det = d.get("detection_after_strengthening") or d.get("detection", "")
    seeds.setdefault(d["breaks_property"], []).append(("caught" if det.startswith("CAUGHT") else "missed→strengthened") )
print("| Prop | Level | Obligations | Translator items | Harness bins | Known findings | Fixed defects | Seeded changes |")
print("|---|---|---|---|---|---|---|---|")
for p in props:
    pid = p["id"]
    f = f"{R}/props/{pid}.json"
    if not os.path.exists(f):
        print(f"| {pid} | not claimed | | | | | | |"); continue
    c = json.load(open(f))
    claimed = c.get("claimed", True)
    print("| {} | {} | {} | {} | {} | {} | {} | {} |".format(
        pid, c.get("level", "proof") + ("" if claimed else " (unclaimed)"),
        len(c["lean"].get("obligations", [])),
        ", ".join(c.get("translate", [])) or "–",
        ", ".join(h["bin"] for h in c.get("harness", [])) or "–",
        ", ".join(known.get(pid, [])) or "–",
        ", ".join(fixed.get(pid, [])) or "–",
        ", ".join(seeds.get(pid, [])) or "–"))
