#!/usr/bin/env python3
"""Replace the table under the SUMMARY-TABLE marker of DESIGN.md with a fresh one."""
import subprocess, re, os
R = os.path.dirname(os.path.dirname(os.path.abspath(__file__)))
t = subprocess.check_output(["python3", f"{R}/tools/gen_summary.py"], text=True)
p = f"{R}/DESIGN.md"
s = open(p).read()
s = re.sub(r"<!-- SUMMARY-TABLE -->\n(\|.*\n)*", "<!-- SUMMARY-TABLE -->\n" + t, s)
open(p, "w").write(s)
