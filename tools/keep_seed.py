#!/usr/bin/env python3
"""Store a confirmed seeded change under /verif/seeded/<id>/ (patch.diff, demo.diff, meta.json).
Usage: keep_seed.py Cxx slug "confirmation text" "detection text" """
import json, os, shutil, sys
pid, slug, confirm, detect = sys.argv[1:5]
src = f"/tmp/seed/{pid}-out"
dst = f"/verif/seeded/{pid}-{slug}"
os.makedirs(dst, exist_ok=True)
shutil.copy(f"{src}/patch.diff", dst)
shutil.copy(f"{src}/demo.diff", dst)
m = json.load(open(f"{src}/meta.json"))
m["id"] = f"{pid}-{slug}"
m["breaks_property"] = pid
m["lead_confirmation"] = confirm
m["detection"] = detect
json.dump(m, open(f"{dst}/meta.json", "w"), indent=1)
print(dst)
