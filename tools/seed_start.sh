#!/bin/bash
# prepare worktree + private (hardlink-cloned) target dir + prompt file for seeding agents
for p in "$@"; do
  [ -d /tmp/seed/$p ] || git -C /repo worktree add -q --detach /tmp/seed/$p HEAD
  mkdir -p /tmp/seed/$p-out
  if [ ! -d /tmp/seed-target-$p ]; then
    cp -al /tmp/seed-target /tmp/seed-target-$p && rm -rf /tmp/seed-target-$p/debug/.fingerprint && cp -a /tmp/seed-target/debug/.fingerprint /tmp/seed-target-$p/debug/.fingerprint
    # lock files must not be hard links shared with other target dirs (they would serialise every seeder)
    for f in .cargo-build-lock .cargo-lock .cargo-artifact-lock; do
      [ -e /tmp/seed-target-$p/debug/$f ] && cp /tmp/seed-target-$p/debug/$f /tmp/seed-target-$p/debug/$f.new && mv -f /tmp/seed-target-$p/debug/$f.new /tmp/seed-target-$p/debug/$f
    done
  fi
  python3 /verif/tools/seed_prompt.py $p "${HINT:-}" > /tmp/seed/$p-prompt.txt
done
