#!/bin/bash
# prepare worktree + private (hardlink-cloned) target dir + prompt file for seeding agents
for p in "$@"; do
  [ -d /tmp/seed/$p ] || git -C /repo worktree add -q --detach /tmp/seed/$p HEAD
  mkdir -p /tmp/seed/$p-out
  if [ ! -d /tmp/seed-target-$p ]; then
    cp -al /tmp/seed-target /tmp/seed-target-$p && rm -rf /tmp/seed-target-$p/debug/.fingerprint && cp -a /tmp/seed-target/debug/.fingerprint /tmp/seed-target-$p/debug/.fingerprint
  fi
  python3 /verif/tools/seed_prompt.py $p "${HINT:-}" > /tmp/seed/$p-prompt.txt
done
