#!/bin/bash
# Lead-side confirmation of seeded changes (DESIGN §11.4), batched: all given seeds must touch
# disjoint files of the same crate. In a scratch worktree: (1) all patches + all demos -> full crate
# lib test run: exactly the demos fail; (2) demos only -> the demos pass.
#   tools/confirm_seeds.sh <crate> <test-filter-for-step-2> Cxx [Cyy ...]
set -u
crate=$1; shift; filter=$1; shift
WT=/tmp/seed/confirm
source /w/out/rust_env.sh; export CARGO_NET_OFFLINE=true CARGO_TARGET_DIR=/tmp/seed-target
[ -d $WT ] || git -C /repo worktree add -q --detach $WT HEAD
cd $WT && git checkout -q -- . && git clean -fdq && git checkout -q --detach "$(git -C /repo rev-parse HEAD)"
for p in "$@"; do git apply /tmp/seed/$p-out/patch.diff || { echo "PATCH $p FAILS TO APPLY"; exit 2; }; done
for p in "$@"; do git apply /tmp/seed/$p-out/demo.diff || { echo "DEMO $p FAILS TO APPLY"; exit 2; }; done
git status --short | awk '{print $2}' | xargs touch
echo "== step 1: patches + demos, full lib tests of $crate"
cargo test --offline -p $crate --lib 2>&1 | grep -E "^test result|FAILED|failed|^failures|panicked" | sort | uniq -c | head -40
git checkout -q -- . && git clean -fdq
for p in "$@"; do git apply /tmp/seed/$p-out/demo.diff; done
git status --short | awk '{print $2}' | xargs touch
for p in "$@"; do for f in $(grep '^+++ b/' /tmp/seed/$p-out/patch.diff | sed 's#+++ b/##'); do touch $f; done; done
cargo clean -q -p $crate 2>/dev/null; echo "== step 2: demos only (filter: $filter)"
cargo test --offline -p $crate --lib -- $filter 2>&1 | grep -E "^test |^test result" | head -40
git checkout -q -- . && git clean -fdq
