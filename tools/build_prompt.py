#!/usr/bin/env python3
"""Print the prompt given to a sub-agent that builds the check of one property.
Usage: build_prompt.py Cxx [extra text]"""
import json, sys
pid = sys.argv[1]
extra = sys.argv[2] if len(sys.argv) > 2 else ""
p = next(json.loads(l) for l in open('/verif/properties.jsonl') if json.loads(l)['id'] == pid)
print(f"""You are building the verification check for ONE property of kanidm (Rust identity server, source in /repo) inside an existing framework in /verif. Technique (fixed): machine-checked proof in Lean 4 over an executable model of the code, with the model tied to /repo's current source on every run by a translator (syn-based, regenerates tables/operators into Lean) and/or a differential correspondence harness (drives the real Rust code in-process and the compiled Lean model with the same inputs and diffs), plus an independent oracle of the property evaluated on the real code.

FIRST read /verif/AGENT_GUIDE.md completely (it is the contract: file layout, definition of done, shared-file etiquette, harness API, Lean 4.33 practicalities, final report format). Then read the entry "### {pid}" in /verif/DESIGN.md §7 (the plan for this property: model M, theorems T, tie, catches, bounds), §3 (modelling conventions), §6 (known defects D1-D21 — note which are already FIXED in /repo, see /verif/known_findings.json), and look at the finished example C10 (props/C10.json, lean/KanidmModel/RangeDiff.lean, lean/KanidmProofs/C10.lean, lean/Driver/C10.lean, harness/hlib/src/bin/c10.rs, harness/vtranslate/src/items/c10.rs, notes/C10 does not exist but notes/C07.md is a good sample). Reuse existing models where they fit (lean/KanidmModel/Filter/*, AuthSession*, SessionMerge, Cid, …) by importing them, never by editing them.

THE PROPERTY ({pid}) — given and fixed, do not reinterpret it more weakly:
  Title: {p['title']}
  Statement: {p['statement']}
  Quantifier (must hold for): {json.dumps(p['quantifier'], ensure_ascii=False)}
  Anchors: {json.dumps(p['anchors'], ensure_ascii=False)}
  Full record: grep '"{pid}"' /verif/properties.jsonl

What to deliver (details in AGENT_GUIDE "Definition of done"): the Lean model transcribing what the code DOES, the property theorems proved for all inputs/states/histories (no sorry/axiom/native_decide/bv_decide; non-vacuity examples), a line-protocol driver, a harness binary with correspondence + independent oracle + replay, translator item(s) where tables/operators/orders matter, props/{pid}.json, notes/{pid}.md, evidence/{pid}.json from a passing `./check {pid} --tier quick` and `--tier thorough`, MANIFEST regenerated, everything committed in /verif (only your files + the shared files you touched). The check must exit 0 on the unchanged tree, never flake, and be as sensitive as you can make it to realistic property-breaking edits of the anchored code (think through 3-5 concrete mutations and name the channel that catches each in your notes).

If the property is genuinely false of the current code on some input (you can show the failing input against the real code): do NOT edit kanidm's behaviour; keep the oracle strict, give the failure a stable `class` string, put `"claimed": false` (with `unclaimed_reason`) in props only if the check cannot pass otherwise, and report the exact witness + a proposed minimal fix to the lead in your final message — the lead decides between a `fix:` commit and a known-findings entry. If part of the truth lives in the runtime (threads, SQLite, OS), model the logic, prove what the model carries, and state the rest as trusted in props `trusted_base`.

{extra}

Work autonomously until done; do not ask questions. Budget: aim to have a first passing claimed check within ~60-90 minutes, then use remaining effort to deepen the model/theorems/tie. Final message: as specified in AGENT_GUIDE "Final report to the lead".""")
