#!/usr/bin/env python3
"""Regenerate the complete seeded-change table of DESIGN §11.4 (marker SEED-TABLE) from seeded/*/meta.json."""
import json, glob, os, re
R = os.path.dirname(os.path.dirname(os.path.abspath(__file__)))
rows = []
for m in sorted(glob.glob(f"{R}/seeded/*/meta.json")):
    d = json.load(open(m))
    det = d.get("detection", "")
    after = d.get("detection_after_strengthening", "")
    verdict = "caught" if det.startswith("CAUGHT") and "no-failing-input-found" not in det else ("caught, no failing input" if det.startswith("CAUGHT") else "missed")
    if after:
        verdict += " → caught after strengthening" if after.startswith("CAUGHT") else " → " + after[:40]
    def cell(x, n):
        x = re.sub(r"\s+", " ", str(x)).replace("|", "/")
        return x if len(x) <= n else x[: n - 1] + "…"
    rows.append("| `{}` | {} | {} | {} | {} |".format(d["id"], d["breaks_property"], cell(d.get("summary", ""), 230), cell(d.get("needs_to_manifest", ""), 200), verdict))
t = "| Seeded change | Prop. | What it does | Needs to manifest | Quick check |\n|---|---|---|---|---|\n" + "\n".join(rows) + "\n"
p = f"{R}/DESIGN.md"
s = open(p).read()
s = re.sub(r"<!-- SEED-TABLE -->\n(\|.*\n)*", "<!-- SEED-TABLE -->\n" + t, s)
open(p, "w").write(s)
print(len(rows), "seeded changes")
